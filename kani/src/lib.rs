//! Kani harnesses: complete (finite-domain, loop-free or fully unwound) proofs on the real crate.
#![allow(unused)]
use json_syntax::{Kind, KindSet};

#[cfg(kani)]
mod harnesses {
    use super::*;

    const KINDS: [Kind; 6] = [Kind::Null, Kind::Boolean, Kind::Number, Kind::String, Kind::Array, Kind::Object];

    fn any_kind() -> Kind {
        let i: u8 = kani::any();
        kani::assume(i < 6);
        KINDS[i as usize]
    }

    /// a KindSet built through the public API from six symbolic membership bits
    fn any_set() -> (KindSet, [bool; 6]) {
        let bits: [bool; 6] = kani::any();
        let mut s = KindSet::none();
        let mut i = 0;
        while i < 6 {
            if bits[i] { s |= KINDS[i]; }
            i += 1;
        }
        (s, bits)
    }

    fn has(s: KindSet, k: Kind) -> bool { !(s & k).is_empty() }

    fn check_is(s: KindSet, bits: [bool; 6]) {
        let mut i = 0;
        let mut n = 0;
        while i < 6 {
            assert!(has(s, KINDS[i]) == bits[i]);
            if bits[i] { n += 1; }
            i += 1;
        }
        assert!(s.len() == n);
        assert!(s.is_empty() == (n == 0));
    }

    #[kani::proof]
    #[kani::unwind(8)]
    fn kindset_membership_len() {
        let (s, bits) = any_set();
        check_is(s, bits);
    }

    #[kani::proof]
    #[kani::unwind(8)]
    fn kindset_union_intersection() {
        let (a, ba) = any_set();
        let (b, bb) = any_set();
        let mut u = [false; 6];
        let mut n = [false; 6];
        let mut i = 0;
        while i < 6 { u[i] = ba[i] || bb[i]; n[i] = ba[i] && bb[i]; i += 1; }
        check_is(a | b, u);
        check_is(a & b, n);
        let mut c = a; c |= b; check_is(c, u);
        let mut d = a; d &= b; check_is(d, n);
    }

    #[kani::proof]
    #[kani::unwind(8)]
    fn kindset_with_kind_operands() {
        let (a, ba) = any_set();
        let i: u8 = kani::any();
        kani::assume(i < 6);
        let k = KINDS[i as usize];
        let mut u = ba; u[i as usize] = true;
        let mut n = [false; 6]; n[i as usize] = ba[i as usize];
        check_is(a | k, u);
        check_is(k | a, u);
        check_is(a & k, n);
        check_is(k & a, n);
        let mut c = a; c |= k; check_is(c, u);
        let mut d = a; d &= k; check_is(d, n);
        // Kind x Kind
        let j: u8 = kani::any();
        kani::assume(j < 6);
        let k2 = KINDS[j as usize];
        let mut kk = [false; 6]; kk[i as usize] = true; kk[j as usize] = true;
        check_is(k | k2, kk);
        let mut ki = [false; 6]; ki[i as usize] = i == j;
        check_is(k & k2, ki);
        let mut single = [false; 6]; single[i as usize] = true;
        check_is(KindSet::from(k), single);
    }

    #[kani::proof]
    #[kani::unwind(8)]
    fn kindset_constants() {
        check_is(KindSet::none(), [false; 6]);
        check_is(KindSet::all(), [true; 6]);
        check_is(KindSet::NULL, [true, false, false, false, false, false]);
        check_is(KindSet::BOOLEAN, [false, true, false, false, false, false]);
        check_is(KindSet::NUMBER, [false, false, true, false, false, false]);
        check_is(KindSet::STRING, [false, false, false, true, false, false]);
        check_is(KindSet::ARRAY, [false, false, false, false, true, false]);
        check_is(KindSet::OBJECT, [false, false, false, false, false, true]);
        check_is(KindSet::default(), [false; 6]);
    }

    /// forward/backward iteration: any interleaving of next / next_back yields the members in
    /// ascending order from the front and descending order from the back, each exactly once,
    /// with an exact size hint, and stays exhausted
    #[kani::proof]
    #[kani::unwind(9)]
    fn kindset_iteration() {
        let (s, bits) = any_set();
        let mut it = s.iter();
        let mut lo: usize = 0;      // next candidate from the front
        let mut hi: usize = 6;      // one past the next candidate from the back
        let mut remaining = s.len();
        let mut step = 0;
        while step < 7 {
            let (a, b) = it.size_hint();
            assert!(a == remaining && b == Some(remaining));
            let front: bool = kani::any();
            if front {
                // expected: smallest member in [lo, hi)
                let mut e = lo;
                while e < hi && !bits[e] { e += 1; }
                match it.next() {
                    Some(k) => { assert!(e < hi && k == KINDS[e]); lo = e + 1; remaining -= 1; }
                    None => { assert!(e >= hi && remaining == 0); }
                }
            } else {
                let mut e = hi;
                while e > lo && !bits[e - 1] { e -= 1; }
                match it.next_back() {
                    Some(k) => { assert!(e > lo && k == KINDS[e - 1]); hi = e - 1; remaining -= 1; }
                    None => { assert!(e <= lo && remaining == 0); }
                }
            }
            step += 1;
        }
        assert!(remaining == 0);
        assert!(it.next().is_none() && it.next_back().is_none());
    }

    /// Value::kind reports the variant (payloads are irrelevant: constructed minimal)
    #[kani::proof]
    fn value_kind_matches_variant() {
        use json_syntax::Value;
        assert!(Value::Null.kind() == Kind::Null);
        let b: bool = kani::any();
        assert!(Value::Boolean(b).kind() == Kind::Boolean);
        assert!(Value::Array(Vec::new()).kind() == Kind::Array);
    }

    // ---- std / dependency contracts assumed in the Verus units, discharged here -------------

    /// char::to_digit(16) == hexval (assumed in units/parse.vrs)
    #[kani::proof]
    fn std_char_to_digit_16() {
        let c: char = kani::any();
        let expect = if ('0'..='9').contains(&c) { Some(c as u32 - '0' as u32) }
            else if ('a'..='f').contains(&c) { Some(c as u32 - 'a' as u32 + 10) }
            else if ('A'..='F').contains(&c) { Some(c as u32 - 'A' as u32 + 10) }
            else { None };
        assert!(c.to_digit(16) == expect);
    }

    /// char::from_u32 == Some iff scalar value (assumed in units/parse.vrs)
    #[kani::proof]
    fn std_char_from_u32() {
        let v: u32 = kani::any();
        let scalar = v < 0xD800 || (0xE000 <= v && v <= 0x10FFFF);
        match char::from_u32(v) {
            Some(c) => assert!(scalar && c as u32 == v),
            None => assert!(!scalar),
        }
    }

    /// locspan::Span::new / set_end / start / end (stubs in units/parse.vrs)
    #[kani::proof]
    fn dep_span_contract() {
        let a: usize = kani::any();
        let b: usize = kani::any();
        let mut s = locspan::Span::new(a, b);
        assert!(s.start() == a && s.end() == if b >= a { b } else { a });
        let e: usize = kani::any();
        let st = s.start();
        s.set_end(e);
        assert!(s.start() == st && s.end() == if e >= st { e } else { st });
    }

    /// decoded_char::DecodedChar::{new, chr, len, from_utf8} (stub in units/parse.vrs)
    #[kani::proof]
    fn dep_decoded_char_contract() {
        let c: char = kani::any();
        let l: usize = kani::any();
        let d = decoded_char::DecodedChar::new(c, l);
        assert!(d.chr() == c && d.len() == l);
        let u = decoded_char::DecodedChar::from_utf8(c);
        assert!(u.chr() == c && u.len() == c.len_utf8());
        let n = c as u32;
        assert!(c.len_utf8() == if n < 0x80 { 1 } else if n < 0x800 { 2 } else if n < 0x10000 { 3 } else { 4 });
    }
}
