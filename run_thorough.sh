#!/bin/sh
# dev helper: every thorough check once, with timing
# (in a `vp run --with-repo` job the checks read the job's own snapshot of /repo)
[ -n "$VP_RUN_REPO" ] && export VERIF_REPO="$VP_RUN_REPO"
for p in C01 C02 C03 C04 C05 C06 C07 C08 C09 C10 C11 C12 C13 C14 C15 C20; do
  s=$(date +%s); out=$(./check $p --tier thorough 2>&1 | tail -1); e=$(date +%s)
  echo "$p $((e-s))s $out"
done
