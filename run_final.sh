#!/bin/sh
# background job (vp run --with-repo): every thorough check, then the detection diagonal and the false-alarm matrix
cd "$(dirname "$0")"
./run_thorough.sh
python3 matrix.py --workers 5 --diagonal
python3 benign_matrix.py --workers 5
