#!/bin/sh
# dev helper: ./collect_run.sh N -- copy the results of background job N (vp run ./run_final.sh) into /verif:
# seeded/DIAGONAL.json, seeded/benign/BENIGN.json and the per-seed meta.json files the matrix updated
R=/root/.vp/runs/$1/verif
[ -f $R/seeded/DIAGONAL.json ] || { echo "no DIAGONAL.json in run $1"; exit 2; }
cp $R/seeded/DIAGONAL.json seeded/DIAGONAL.json
[ -f $R/seeded/benign/BENIGN.json ] && cp $R/seeded/benign/BENIGN.json seeded/benign/BENIGN.json
for d in $R/seeded/C*/; do id=$(basename $d); [ -d seeded/$id ] && cp $d/meta.json seeded/$id/meta.json; done
echo collected
