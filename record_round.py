#!/usr/bin/env python3
"""dev helper: record the result of `./seedtest.sh seeded/<id>/patch.diff <prop>` for confirmed seeds.

usage: record_round.py <round> <seed-id>...   (reads /tmp/st_<seed-id>.out = a copy of /tmp/seedtest.out)
Updates seeded/<id>/meta.json and seeded/DIAGONAL.json and prints the totals DESIGN.md quotes.
"""
import json, sys

rnd = int(sys.argv[1])
D = json.load(open('/verif/seeded/DIAGONAL.json'))
for k in sys.argv[2:]:
    p = k.split('-')[0]
    out = open('/tmp/st_%s.out' % k).read()
    obs = sorted(set(l[len('FAILED OBLIGATION: '):].strip() for l in out.splitlines()
                     if l.startswith('FAILED OBLIGATION: ') and not l.startswith('FAILED OBLIGATION: bounded check')))
    viol = any(l.startswith('VIOLATION property=%s' % p) for l in out.splitlines())
    dv = 'failed-obligation' if obs else ('no-verdict' if 'gave no verdict' in out or 'NO-VERDICT' in out else 'accepted')
    fi = 'FAILING INPUT' in out
    D['results'][k] = {p: {'verdict': 'violation' if viol else 'MISSED', 'with_failing_input': fi, 'deductive': dv, 'deductive_obligations': obs}}
    m = json.load(open('/verif/seeded/%s/meta.json' % k))
    m['round'] = rnd
    m['needs_to_manifest'] = open('/verif/seeded/%s/notes.md' % k).read().strip()
    m['detected_by'] = [p] if viol else []
    m['also_flagged_by'] = []; m['no_verdict'] = []
    m['failing_input_found'] = fi; m['deductive_part'] = dv
    m['ran'] = './seedtest.sh seeded/%s/patch.diff %s (git -C /repo apply; ./check %s; git -C /repo checkout -- .)' % (k, p, p)
    json.dump(m, open('/verif/seeded/%s/meta.json' % k, 'w'), indent=1)
    print(k, 'VIOLATION' if viol else 'MISSED', dv, 'input' if fi else 'no-input', obs[:2])
json.dump(D, open('/verif/seeded/DIAGONAL.json', 'w'), indent=1)
c = {}; fi = 0
for k, v in D['results'].items():
    e = v.get(k.split('-')[0]) or list(v.values())[0]
    c[e['deductive']] = c.get(e['deductive'], 0) + 1
    fi += 1 if e.get('with_failing_input') else 0
print(len(D['results']), c, 'with failing input:', fi)
