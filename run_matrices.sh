#!/bin/sh
# background job (vp run --with-repo): detection diagonal over all seeds, then the false-alarm matrix
cd "$(dirname "$0")"
python3 matrix.py --workers 4 --diagonal
python3 benign_matrix.py --workers 4
