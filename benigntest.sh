#!/bin/sh
# dev helper: ./benigntest.sh <patch.diff> <ID>... -- apply a behaviour-preserving change to /repo,
# run the checks, revert.  Any VIOLATION here is a false alarm of the machinery.
p=$(realpath "$1"); shift
git -C /repo apply "$p" || exit 3
for id in "$@"; do
  out=$(/verif/check $id 2>&1); rc=$?
  echo "== $(basename $p) $id rc=$rc"
  echo "$out" | grep -E "VIOLATION|NO-VERDICT|OK property|KNOWN|lost anchor|error" | head -8
done
git -C /repo checkout -- .
