#!/bin/sh
# background job (vp run --with-repo): the detection diagonal over all seeds, then the benign patches added last
cd "$(dirname "$0")"
python3 matrix.py --workers 6 --diagonal
python3 benign_matrix.py --workers 6 --only r
