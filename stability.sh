#!/bin/sh
# dev helper: ./stability.sh <unit> [seeds...]  -- verify a unit under several solver seeds and list
# the functions whose verdict is not the same every time
u=$1; shift
seeds=${@:-"0 1 2 3 4"}
mkdir -p /tmp/vgen
python3 /verif/extract/extract.py --template /verif/units/$u.vrs --out /tmp/vgen/$u.rs --report /tmp/vgen/$u.report.json >/dev/null || exit 2
cd /tmp/vgen
for sd in $seeds; do
  verus $u.rs --triggers-mode silent --rlimit 60 --num-threads 8 --multiple-errors 5 --smt-option smt.random_seed=$sd 2>&1 | grep -E "^error|verification results|^ +--> " | grep -B1 -A1 "^error" | grep -E "^error|-->" | paste - - | sed "s/^/seed $sd: /" | cut -c1-200
  echo "seed $sd done"
done
