#!/bin/sh
# dev helper: regenerate every evidence file on the current tree (quick tier), one check after the other
cd "$(dirname "$0")"
for p in C01 C02 C03 C04 C05 C06 C07 C08 C09 C10 C11 C12 C13 C14 C15 C20; do
  ./check $p --tier quick | tail -1
done
