#!/bin/sh
# ./seedtest.sh <patch.diff> <prop>...   -- apply a seeded change to /repo, run checks, undo
patch=$1; shift
git -C /repo apply "$(realpath "$patch")" || { echo "patch does not apply"; exit 3; }
for p in "$@"; do ./check $p > /tmp/seedtest.out 2>&1; rc=$?; grep -E "^(OK|VIOLATION|KNOWN|NO-VERDICT)" /tmp/seedtest.out | cut -c1-200; grep -E "^FAILED OBLIGATION" /tmp/seedtest.out | sort | uniq -c | cut -c1-200 | head -4; grep -E "^FAILING INPUT" /tmp/seedtest.out | cut -c1-300 | head -1; echo "  -> $p rc=$rc"; done
git -C /repo checkout -- .
