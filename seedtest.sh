#!/bin/sh
# ./seedtest.sh <patch.diff> <prop>...   -- apply a seeded change to /repo, run checks, undo
patch=$1; shift
git -C /repo apply "$(realpath "$patch")" || { echo "patch does not apply"; exit 3; }
for p in "$@"; do ./check $p 2>&1 | grep -E "^(OK|VIOLATION|KNOWN|NO-VERDICT)|FAILED OBLIGATION" | head -5; echo "  -> $p rc=$?"; done
git -C /repo checkout -- .
