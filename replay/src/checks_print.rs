//! Bounded stand-ins for the printer family (C04 C08 C13): the real printer against the reference
//! layout / compact serializer on small values x option records; covers the three recursive
//! `impl .. for Value` dispatchers that are outside the verifier's reach.
use crate::refjson::*;
use crate::{fnv, from_real, to_real, Report, Rng};
use json_syntax::print::{Indent, Limit, Options};
use json_syntax::{Parse, Print, Value};

fn real_opts(o: &RefPrint) -> Options {
    let mut r = Options::pretty();
    r.indent = if o.indent_char == ' ' { Indent::Spaces(o.indent_n as u8) } else { Indent::Tabs(o.indent_n as u8) };
    r.array_begin = o.a_begin; r.array_end = o.a_end; r.array_empty = o.a_empty; r.array_before_comma = o.a_bc; r.array_after_comma = o.a_ac;
    r.array_limit = o.a_limit.map(real_limit);
    r.object_begin = o.o_begin; r.object_end = o.o_end; r.object_empty = o.o_empty; r.object_before_comma = o.o_bc; r.object_after_comma = o.o_ac;
    r.object_before_colon = o.o_bcolon; r.object_after_colon = o.o_acolon; r.object_limit = o.o_limit.map(real_limit);
    r
}
fn real_limit(l: RefLimit) -> Limit { match l { RefLimit::Always => Limit::Always, RefLimit::Item(i) => Limit::Item(i), RefLimit::Width(w) => Limit::Width(w), RefLimit::ItemOrWidth(i, w) => Limit::ItemOrWidth(i, w) } }

fn pretty() -> RefPrint { RefPrint { indent_char: ' ', indent_n: 2, a_begin: 1, a_end: 1, a_empty: 0, a_bc: 0, a_ac: 1, a_limit: Some(RefLimit::ItemOrWidth(1, 16)), o_begin: 1, o_end: 1, o_empty: 0, o_bc: 0, o_ac: 1, o_bcolon: 0, o_acolon: 1, o_limit: Some(RefLimit::ItemOrWidth(1, 16)) } }
fn compact() -> RefPrint { RefPrint { indent_char: ' ', indent_n: 0, a_begin: 0, a_end: 0, a_empty: 0, a_bc: 0, a_ac: 0, a_limit: None, o_begin: 0, o_end: 0, o_empty: 0, o_bc: 0, o_ac: 0, o_bcolon: 0, o_acolon: 0, o_limit: None } }
fn inline() -> RefPrint { RefPrint { indent_char: ' ', indent_n: 0, a_begin: 1, a_end: 1, a_empty: 0, a_bc: 0, a_ac: 1, a_limit: None, o_begin: 1, o_end: 1, o_empty: 0, o_bc: 0, o_ac: 1, o_bcolon: 0, o_acolon: 1, o_limit: None } }

fn leaves() -> Vec<RefValue> {
    vec![RefValue::Null, RefValue::Bool(true), RefValue::Bool(false), RefValue::Num("0".into()), RefValue::Num("-1.50e+3".into()),
         RefValue::Str("".into()), RefValue::Str("a\"\\/".into()), RefValue::Str("\u{1}\u{1f}\u{8}\u{c}\n\r\t".into()), RefValue::Str("\u{7f}\u{2028}\u{1F600}\u{e9}".into()),
         // every control character once (each low nibble of the \u00XX form, the one without a short form between \n and \f)
         RefValue::Str("\u{e9}\"".into()), RefValue::Str("\u{1F600}\u{20ac}\u{1}".into()),
         RefValue::Str("abcdefgh\u{b}".into()), RefValue::Str((0u8..0x20).map(|b| b as char).collect::<String>())]
}
// (keys on which Rust's `Debug` / `escape_default` renderings differ from the JSON escapes are there on purpose)
// (and keys in which the extra BYTES of multi-byte characters equal the extra CHARACTERS of the escapes, so that
//  "printed size == byte length + 2" holds although the key needs escaping: 2-byte + one short escape, 3-byte +
//  two, 4-byte + three, 4-byte + 3-byte + one \u00XX escape)
const KEYS: [&str; 13] = ["", "k", "k", "\"\u{e9}\n", "\u{0}\u{1f}", "\u{7f}\u{2028}'", "\u{feff}e\u{301}", "\u{ffff}\u{1F600}\\",
    "\u{e9}\"", "\u{20ac}\n\t", "\u{1F600}\\\"\r", "\u{1F600}\u{20ac}\u{1}", "a\u{e9}b\u{8}"];

fn values(depth: usize, breadth: usize) -> Vec<RefValue> {
    let mut cur = leaves();
    for _ in 0..depth {
        let base: Vec<RefValue> = cur.iter().step_by((cur.len() / 7).max(1)).cloned().collect();
        let mut next = cur.clone();
        next.push(RefValue::Arr(vec![])); next.push(RefValue::Obj(vec![]));
        for a in &base { next.push(RefValue::Arr(vec![a.clone()])); for (ki, k) in KEYS.iter().enumerate() { if ki % 2 == 0 { next.push(RefValue::Obj(vec![(k.to_string(), a.clone())])); } } }
        if breadth >= 2 { for (i, a) in base.iter().enumerate() { for (j, b) in base.iter().enumerate() { if (i + j) % 2 == 0 {
            next.push(RefValue::Arr(vec![a.clone(), b.clone()]));
            next.push(RefValue::Obj(vec![(KEYS[i % KEYS.len()].to_string(), a.clone()), (KEYS[(j + 3) % KEYS.len()].to_string(), b.clone())]));
        } } } }
        if breadth >= 3 { for (i, a) in base.iter().enumerate().take(4) { next.push(RefValue::Arr(vec![a.clone(), base[(i + 1) % base.len()].clone(), base[(i + 2) % base.len()].clone()])); next.push(RefValue::Obj(vec![("k".into(), a.clone()), ("k".into(), base[(i + 1) % base.len()].clone()), ("z".into(), base[(i + 2) % base.len()].clone())])); } }
        cur = next;
    }
    cur
}

fn option_records(v: &RefValue, rng: &mut Rng, many: bool) -> Vec<RefPrint> {
    let mut out = vec![pretty(), compact(), inline()];
    // each numeric field individually, on top of each preset
    for base in [pretty(), inline()] {
        for f in 0..12 { for val in [0usize, 2, 3] {
            let mut o = base.clone();
            match f { 0 => o.a_begin = val, 1 => o.a_end = val, 2 => o.a_empty = val, 3 => o.a_bc = val, 4 => o.a_ac = val, 5 => o.o_begin = val, 6 => o.o_end = val, 7 => o.o_empty = val, 8 => o.o_bc = val, 9 => o.o_ac = val, 10 => o.o_bcolon = val, _ => o.o_acolon = val }
            out.push(o);
        } }
    }
    // limits with thresholds around the actual one-line width
    let mut nolimit = inline(); nolimit.a_begin = 2; nolimit.o_end = 0; nolimit.a_empty = 3; nolimit.o_empty = 1;
    let w = ref_width(v, &nolimit).unwrap_or(0);
    let mut limits = vec![None, Some(RefLimit::Always), Some(RefLimit::Item(0)), Some(RefLimit::Item(1)), Some(RefLimit::Item(2))];
    for d in [w.saturating_sub(1), w, w + 1, 2, 5] { limits.push(Some(RefLimit::Width(d))); limits.push(Some(RefLimit::ItemOrWidth(1, d))); limits.push(Some(RefLimit::ItemOrWidth(2, d))); }
    for (i, l) in limits.iter().enumerate() {
        let mut o = nolimit.clone(); o.a_limit = *l; o.o_limit = limits[(i + 3) % limits.len()]; o.indent_n = 1 + i % 3; o.indent_char = if i % 4 == 0 { '\t' } else { ' ' };
        out.push(o.clone()); o.o_limit = *l; o.a_limit = None; out.push(o);
    }
    for _ in 0..(if many { 24 } else { 6 }) {
        let mut o = pretty();
        o.a_begin = rng.below(3); o.a_end = rng.below(3); o.a_empty = rng.below(3); o.a_bc = rng.below(3); o.a_ac = rng.below(3);
        o.o_begin = rng.below(3); o.o_end = rng.below(3); o.o_empty = rng.below(3); o.o_bc = rng.below(3); o.o_ac = rng.below(3); o.o_bcolon = rng.below(3); o.o_acolon = rng.below(3);
        o.indent_n = rng.below(4); o.indent_char = if rng.below(2) == 0 { ' ' } else { '\t' };
        o.a_limit = limits[rng.below(limits.len())]; o.o_limit = limits[rng.below(limits.len())];
        out.push(o);
    }
    out
}

/// run a printing call of the real library; a panic (the printed form of an in-memory value always
/// exists) is a violation with the input that caused it
fn guarded(rep: &mut Report, input: String, f: impl FnOnce() -> String) -> Option<String> {
    match std::panic::catch_unwind(std::panic::AssertUnwindSafe(f)) {
        Ok(s) => Some(s),
        Err(_) => { rep.violation("printing panics", "print-panic", input, "the printer panicked".into()); None }
    }
}

pub fn run(prop: &str, thorough: bool, seed: u64, rep: &mut Report) {
    std::panic::set_hook(Box::new(|_| {}));
    let mut rng = Rng(seed.wrapping_mul(0x9E3779B97F4A7C15) | 1);
    let vals = values(if thorough { 3 } else { 2 }, if thorough { 3 } else { 2 });
    rep.bounds = vec![("values".into(), vals.len().to_string()), ("depth".into(), (if thorough { 3 } else { 2 }).to_string())];
    rep.rule = "every value of the bounded family (depth/breadth bounded, leaves covering every escape class) x option records (presets, each spacing field varied, every Limit variant with thresholds around the actual width, random records); a case is non-trivial when the value is a container".into();
    match prop {
        "C13" | "C04" => {
            rep.checks.push(format!("{}: real printer vs reference layout / re-parse", prop));
            for v in &vals {
                let real_v = to_real(v);
                for o in option_records(v, &mut rng, thorough) {
                    let printed = match guarded(rep, format!("value={:?} options={:?}", v, o), || real_v.print_with(real_opts(&o)).to_string()) { Some(p) => p, None => continue };
                    rep.eval(matches!(v, RefValue::Arr(_) | RefValue::Obj(_)), fnv(printed.as_bytes()) ^ fnv(format!("{:?}", o).as_bytes()));
                    if prop == "C13" {
                        let mut want = String::new(); ref_layout(v, &o, 0, &mut want);
                        if printed != want { rep.violation("printed text == documented layout", "layout", format!("value={:?} options={:?}", v, o), format!("real={:?} reference={:?}", printed, want)); }
                        if (o.a_limit.is_none() && o.o_limit.is_none()) && printed.contains('\n') && !format!("{:?}", v).contains("\\n") { rep.violation("no limit => never a line break", "inline-newline", format!("value={:?} options={:?}", v, o), printed.clone()); }
                    } else {
                        match Value::parse_str(&printed) {
                            Ok((back, _)) => if &from_real(&back) != v { rep.violation("print then parse gives the value back", "roundtrip", format!("value={:?} options={:?}", v, o), format!("printed={:?} reparsed={:?}", printed, from_real(&back))); },
                            Err(e) => rep.violation("printed text is valid strict JSON", "roundtrip-invalid", format!("value={:?} options={:?}", v, o), format!("printed={:?} error={:?}", printed, e)),
                        }
                    }
                }
            }
            if prop == "C13" {
                // indentation = depth x unit, for units and depths whose product crosses 8 / 16 / 32 / 64 / 256
                // columns (an implementation that writes padding in chunks has its boundaries there)
                rep.checks.push("C13: indentation of deeply nested containers (depth 1..20) for indent units of 1..255 spaces / 1..17 tabs == depth x unit".into());
                fn nest(d: usize) -> RefValue { if d == 0 { RefValue::Num("1".into()) } else if d % 2 == 0 { RefValue::Arr(vec![nest(d - 1), RefValue::Null]) } else { RefValue::Obj(vec![("k".into(), nest(d - 1))]) } }
                for (ch, n) in [(' ', 1usize), (' ', 2), (' ', 3), (' ', 4), (' ', 7), (' ', 8), (' ', 15), (' ', 16), (' ', 17), (' ', 31), (' ', 32), (' ', 33), (' ', 64), (' ', 255), ('\t', 1), ('\t', 2), ('\t', 16), ('\t', 17)] {
                    for d in [1usize, 2, 3, 4, 5, 8, 9, 16, 17, 20] {
                        let v = nest(d);
                        let mut o = pretty(); o.indent_char = ch; o.indent_n = n; o.a_limit = Some(RefLimit::Always); o.o_limit = Some(RefLimit::Always);
                        let real_v = to_real(&v);
                        let printed = match guarded(rep, format!("nesting depth {} options={:?}", d, o), || real_v.print_with(real_opts(&o)).to_string()) { Some(p) => p, None => continue };
                        rep.eval(true, fnv(printed.as_bytes()));
                        let mut want = String::new(); ref_layout(&v, &o, 0, &mut want);
                        if printed != want {
                            // report the first line that differs, not the whole text
                            let (a, b): (Vec<&str>, Vec<&str>) = (printed.lines().collect(), want.lines().collect());
                            let i = (0..a.len().min(b.len())).find(|i| a[*i] != b[*i]).unwrap_or(a.len().min(b.len()));
                            rep.violation("printed text == documented layout", "layout-indent", format!("containers nested {} deep, indent unit {:?} x {}", d, ch, n), format!("line {}: real has {} leading blanks, the layout {}", i, a.get(i).map(|l| l.len() - l.trim_start().len()).unwrap_or(0), b.get(i).map(|l| l.len() - l.trim_start().len()).unwrap_or(0)));
                        }
                    }
                }
                for (ch, n) in [(' ', 16u8), (' ', 15), (' ', 17), (' ', 255), ('\t', 16), (' ', 0)] {
                    let ind = if ch == ' ' { Indent::Spaces(n) } else { Indent::Tabs(n) };
                    let got = ind.to_string();
                    rep.eval(true, fnv(got.as_bytes()) ^ n as u64);
                    if got != ch.to_string().repeat(n as usize) { rep.violation("printed text == documented layout", "indent-unit", format!("Indent {:?} x {}", ch, n), format!("Display writes {} characters", got.chars().count())); }
                }
            }
            if prop == "C13" { for v in vals.iter().take(40) {
                let r = to_real(v);
                let (si, sc) = match (guarded(rep, format!("inline {:?}", v), || r.inline_print().to_string()), guarded(rep, format!("compact {:?}", v), || r.compact_print().to_string())) { (Some(a), Some(b)) => (a, b), _ => continue };
                for (name, s) in [("inline", si), ("compact", sc)] {
                    let mut want = String::new(); ref_layout(v, &(if name == "inline" { inline() } else { compact() }), 0, &mut want);
                    if s != want { rep.violation("inline/compact presets", "preset", format!("{} {:?}", name, v), format!("real={:?} reference={:?}", s, want)); }
                }
                let mut want = String::new(); ref_layout(v, &pretty(), 0, &mut want);
                if let Some(pp) = guarded(rep, format!("pretty {:?}", v), || r.pretty_print().to_string()) { if pp != want { rep.violation("pretty preset", "preset", format!("{:?}", v), want); } }
            } }
        }
        "C08" => {
            rep.checks.push("C08: compact_print == to_string == Display == String::from == reference serializer".into());
            for v in &vals {
                let r = to_real(v);
                let mut want = String::new(); ref_compact(v, &mut want);
                let all = guarded(rep, format!("{:?}", v), || { let a = r.compact_print().to_string(); let b = r.to_string(); let c = format!("{}", r); let d: String = r.clone().into(); [a, b, c, d].join("\u{0}") });
                let parts: Vec<String> = match all { Some(x) => x.split('\u{0}').map(|t| t.to_string()).collect(), None => continue };
                if parts.len() != 4 { continue; }
                let (a, b, c, d) = (parts[0].clone(), parts[1].clone(), parts[2].clone(), parts[3].clone());
                rep.eval(true, fnv(want.as_bytes()));
                if !(a == want && b == want && c == want && d == want) { rep.violation("compact output == reference", "compact", format!("{:?}", v), format!("compact_print={:?} to_string={:?} display={:?} into_string={:?} reference={:?}", a, b, c, d, want)); }
            }
            rep.checks.push("C08: every Unicode scalar as a one-character string and key".into());
            let mut n = 0u32;
            while n <= 0x10FFFF {
                if let Some(ch) = char::from_u32(n) {
                    let s: String = ch.to_string();
                    let v = RefValue::Obj(vec![(s.clone(), RefValue::Str(s))]);
                    let mut want = String::new(); ref_compact(&v, &mut want);
                    let got = match guarded(rep, format!("U+{:04X}", n), || to_real(&v).compact_print().to_string()) { Some(g) => g, None => { n += 1; continue } };
                    rep.eval(true, n as u64);
                    if got != want { rep.violation("RFC 8785 escaping of every scalar", "scalar", format!("U+{:04X}", n), format!("real={:?} reference={:?}", got, want)); if rep.violations.len() > 5 { break; } }
                }
                n += if thorough || n < 0x3000 { 1 } else { 7 };
            }
        }
        _ => {}
    }
    rep.sample("[1,{\"k\":[]}] with Limit::Width(w-1), Width(w), Width(w+1)".into());
    rep.sample("{\"\":\"\\u0001\\u001f\"} under compact/inline/pretty".into());
}
