//! Bounded stand-ins: canonicalization (C09 C10), code-map navigation (C11), KindSet renderings (C20);
//! and the replay entry point.
use crate::refjson::*;
use crate::{fnv, from_real, to_real, Report, Rng};
use json_syntax::{Kind, KindSet, Parse, Print, Value};

fn idx_of(o: &json_syntax::Object, k: &str) -> Vec<usize> { o.entries().iter().enumerate().filter(|(_, e)| e.key.as_str() == k).map(|(i, _)| i).collect() }

pub fn run(prop: &str, thorough: bool, seed: u64, rep: &mut Report) {
    match prop {
        "C09" | "C10" => canonical(prop, thorough, seed, rep),
        "C11" => navigation(thorough, seed, rep),
        "C20" => renderings(rep),
        _ => {}
    }
}

pub fn replay(prop: &str, input_json: &str, rep: &mut Report) {
    // the recorded counterexample names the check and the input; the whole bounded check is re-run
    // against the real code and only the recorded input is reported
    let mut full = Report::new(prop);
    match prop {
        "C01" | "C02" | "C03" | "C05" | "C07" | "C12" => crate::checks_parse::run(prop, false, 0, &mut full),
        "C04" | "C08" | "C13" => crate::checks_print::run(prop, false, 0, &mut full),
        "C06" | "C14" | "C15" => crate::checks_object::run(prop, false, 0, &mut full),
        _ => run(prop, false, 0, &mut full),
    }
    rep.checks = full.checks.clone();
    rep.evaluations = full.evaluations;
    for v in full.violations { if input_json.contains(&crate::jstr(&v.2)) || input_json.is_empty() { rep.violations.push(v); } }
}

// ---- canonicalization -----------------------------------------------------------------------------

fn utf16_key(s: &str) -> Vec<u16> { s.encode_utf16().collect() }

/// RFC 8785: members sorted by key as UTF-16 code units at every level; numbers through `num`
fn ref_canon(v: &RefValue, num: &dyn Fn(&str) -> String) -> RefValue {
    match v {
        RefValue::Num(n) => RefValue::Num(num(n)),
        RefValue::Arr(a) => RefValue::Arr(a.iter().map(|x| ref_canon(x, num)).collect()),
        RefValue::Obj(es) => { let mut es: Vec<(String, RefValue)> = es.iter().map(|(k, x)| (k.clone(), ref_canon(x, num))).collect(); es.sort_by(|a, b| utf16_key(&a.0).cmp(&utf16_key(&b.0))); RefValue::Obj(es) }
        other => other.clone(),
    }
}

/// spellings with their ECMAScript rendering (RFC 8785 section 3.2.2.3 and appendix B)
const NUMBERS: [(&str, &str); 25] = [
    ("0", "0"), ("-0", "0"), ("1", "1"), ("1.0", "1"), ("-1.50", "-1.5"), ("10e-1", "1"), ("1e2", "100"), ("1E30", "1e+30"), ("4.50", "4.5"),
    ("2e-3", "0.002"), ("0.000000000000000000000000001", "1e-27"), ("333333333.33333329", "333333333.3333333"), ("1e21", "1e+21"),
    ("123456789012345680000", "123456789012345680000"), ("0.000001", "0.000001"), ("1e-7", "1e-7"), ("5e-324", "5e-324"),
    ("1.7976931348623157e308", "1.7976931348623157e+308"), ("9007199254740992", "9007199254740992"), ("1424953923781206.2", "1424953923781206.2"),
    ("0.1", "0.1"), ("100000000000000000000", "100000000000000000000"),
    ("9007199254740993", "9007199254740992"), ("9223372036854775807", "9223372036854776000"), ("-9007199254740993", "-9007199254740992"),
];

/// ECMAScript `Number::toString` of a finite double (ECMA-262 7.1.12.1): the FEWEST digits that
/// identify the double; among those the digit string closest to its exact value, the even one on a
/// tie; then the notation rules.  Written from the standard over the exact decimal expansion of the
/// double (Rust prints doubles exactly at high precision) -- independent of ryu-js.
fn es6(f: f64) -> String {
    if f == 0.0 { return "0".into(); }
    let a = f.abs();
    let exact = format!("{:.1100e}", a);
    let (m, e) = exact.split_once('e').unwrap();
    let e: i32 = e.parse().unwrap();
    let all: Vec<u8> = m.bytes().filter(|c| *c != b'.').map(|c| c - b'0').collect();
    let render = |ds: &[u8], e10: i32| -> String { format!("{}.{}e{}", ds[0], ds[1..].iter().map(|d| d.to_string()).collect::<String>() + "0", e10) };
    let mut chosen: Option<(Vec<u8>, i32)> = None;
    for k in 1..=17usize {
        let lo: Vec<u8> = all[..k].to_vec();
        // hi = lo + 1 unit in the last place (may carry into a new leading digit)
        let mut hi = lo.clone(); let mut i = k; let mut ehi = e;
        loop { if i == 0 { hi.insert(0, 1); hi.pop(); ehi += 1; break; } i -= 1; if hi[i] == 9 { hi[i] = 0; } else { hi[i] += 1; break; } }
        let ok_lo = render(&lo, e).parse::<f64>().unwrap() == a;
        let ok_hi = render(&hi, ehi).parse::<f64>().unwrap() == a;
        let rest = &all[k..];
        let cmp_half = { // compare 0.rest with 0.5
            if rest.is_empty() || rest.iter().all(|d| *d == 0) { std::cmp::Ordering::Less }
            else if rest[0] > 5 || (rest[0] == 5 && rest[1..].iter().any(|d| *d != 0)) { std::cmp::Ordering::Greater }
            else if rest[0] == 5 { std::cmp::Ordering::Equal } else { std::cmp::Ordering::Less }
        };
        chosen = match (ok_lo, ok_hi) {
            (true, true) => Some(match cmp_half { std::cmp::Ordering::Less => (lo, e), std::cmp::Ordering::Greater => (hi, ehi), std::cmp::Ordering::Equal => if lo[k - 1] % 2 == 0 { (lo, e) } else { (hi, ehi) } }),
            (true, false) => Some((lo, e)),
            (false, true) => Some((hi, ehi)),
            (false, false) => None,
        };
        if chosen.is_some() { break; }
    }
    let (mut ds, e) = chosen.expect("17 digits always identify a double");
    while ds.len() > 1 && *ds.last().unwrap() == 0 { ds.pop(); }
    let digits: String = ds.iter().map(|d| d.to_string()).collect();
    let k = digits.len() as i32;
    let n = e + 1; // value = 0.digits x 10^n
    let body = if k <= n && n <= 21 { format!("{}{}", digits, "0".repeat((n - k) as usize)) }
        else if 0 < n && n <= 21 { format!("{}.{}", &digits[..n as usize], &digits[n as usize..]) }
        else if -6 < n && n <= 0 { format!("0.{}{}", "0".repeat((-n) as usize), digits) }
        else { let ex = n - 1; let es = format!("{}{}", if ex >= 0 { "+" } else { "-" }, ex.abs()); if k == 1 { format!("{}e{}", digits, es) } else { format!("{}.{}e{}", &digits[..1], &digits[1..], es) } };
    if f < 0.0 { format!("-{}", body) } else { body }
}

/// the RFC 8785 rendering of a JSON number spelling: the double NEAREST to the exact decimal value
/// (Rust's `str::parse::<f64>` is correctly rounded), rendered as ECMAScript does
fn ref_number(spelling: &str) -> String { es6(spelling.parse::<f64>().unwrap()) }

fn canon_text(v: &RefValue) -> String { let mut r = to_real(v); r.canonicalize(); r.compact_print().to_string() }

fn canonical(prop: &str, thorough: bool, seed: u64, rep: &mut Report) {
    let mut rng = Rng(seed.wrapping_mul(0x9E3779B97F4A7C15) | 1);
    // (short keys that separate UTF-16 order from code-point order, and long keys that share a prefix
    // longer than any inline capacity -- 16, 32 units -- and differ only after it)
    let keys = ["", "a", "b", "aa", "\u{e000}", "\u{10000}", "\u{ffff}", "\u{1F600}", "\u{e9}", "A", "\n", "\u{7f}/", "\u{1f}\"\\", "\u{2028}",
        "urn:example:item:b", "urn:example:item:a", "urn:example:item:", "0123456789abcdef", "0123456789abcdefg", "0123456789abcde\u{1F600}b", "0123456789abcde\u{1F600}a",
        "0123456789abcdef0123456789abcdef-z", "0123456789abcdef0123456789abcdef-y", "0123456789abcdef0123456789abcde\u{e000}", "0123456789abcdef0123456789abcde\u{10000}",
        // supplementary characters that share a lead surrogate (D83D: U+1F600 / U+1F601; D800: U+10000 / U+10001 / U+103FF) or
        // differ in it (D801: U+10400), alone and followed by a character that would decide the other way; the BMP neighbours
        // of the surrogate range
        "\u{1F601}", "\u{1F600}b", "\u{1F601}a", "\u{10001}", "\u{103FF}", "\u{10400}", "\u{103FF}z", "\u{10400}a", "\u{10FFFF}", "\u{d7ff}", "\u{d7ff}z", "\u{ffff}a", "a\u{1F601}", "a\u{1F600}b", "\u{e000}\u{10000}", "\u{10000}\u{e000}"];
    // (the reference rendering of every number: nearest double, ECMAScript text; the RFC table is a self-check of it)
    let num_ident = |s: &str| -> String { ref_number(s) };
    rep.rule = "objects over keys that separate UTF-16 order from code-point order (U+E000, U+FFFF vs non-BMP), nested two levels, all number spellings of the RFC 8785 table; compared with: sort by UTF-16 units at every level + reference compact serializer; non-trivial = at least two members".into();
    rep.bounds = vec![("keys".into(), keys.len().to_string()), ("numbers".into(), NUMBERS.len().to_string())];
    if prop == "C09" {
        rep.checks.push("C09: canonical form == RFC 8785 (UTF-16 member order, number table, minimal escaping)".into());
        for (spelling, want) in NUMBERS.iter() {
            let got = canon_text(&RefValue::Num(spelling.to_string()));
            rep.eval(true, fnv(spelling.as_bytes()));
            if &got != want { rep.violation("number rendering (dependency: json-number/ryu-js)", &format!("number:{}", spelling), spelling.to_string(), format!("real={} expected={}", got, want)); }
            if &ref_number(spelling) != want { rep.violation("(reference self-check) es6 rendering of the RFC table", "refself", spelling.to_string(), ref_number(spelling)); }
        }
        // member order, exhaustively for every ordered pair of the keys above (values that would order the
        // other way when keys tie): the two-member object must come out in UTF-16 order
        rep.checks.push("C09: every ordered pair of keys (supplementary characters sharing / not sharing a lead surrogate, surrogate-range neighbours, long shared prefixes): two-member objects come out in UTF-16 order".into());
        for (i, k1) in keys.iter().enumerate() { for (j, k2) in keys.iter().enumerate() { if i == j { continue; }
            let v = RefValue::Obj(vec![(k1.to_string(), RefValue::Num("2".into())), (k2.to_string(), RefValue::Num("1".into()))]);
            let got = canon_text(&v);
            rep.eval(true, fnv(got.as_bytes()));
            let mut want = String::new(); ref_compact(&ref_canon(&v, &num_ident), &mut want);
            if got != want { rep.violation("canonical output == RFC 8785 reference", "canon-pair", format!("{:?}", v), format!("real={:?} reference={:?}", got, want)); }
        } }
        // long decimals (more digits than a double holds), exponent shifts, near-halfway spellings,
        // the thresholds of the exponential notation, subnormals: the double must be the NEAREST one
        rep.checks.push("C09: numbers with 17..40 significant digits, near-halfway decimals, notation thresholds == nearest double, ECMAScript rendering".into());
        let mut cases: Vec<String> = vec!["1e21".into(), "999999999999999999999".into(), "1000000000000000000000".into(), "0.000001".into(), "0.0000009999999999999999".into(), "1e-6".into(), "1e-7".into(),
            "4.9e-324".into(), "2.4703282292062328e-324".into(), "2.4703282292062327e-324".into(), "2.2250738585072011e-308".into(), "1.7976931348623158e308".into(), "9007199254740993".into(),
            "9007199254740992.5".into(), "9007199254740993.0000000000000000001".into(), "0.1000000000000000055511151231257827021181583404541015625".into(), "0.30000000000000004".into(),
            "62366.589399033819066834200497105".into(), "2301321284722629935389".into(), "63868144857173796.005437586005".into()];
        let m = if thorough { 60_000 } else { 12_000 };
        for _ in 0..m {
            let nd = 17 + rng.below(24);
            let mut digs: String = (0..nd).map(|_| (b'0' + rng.below(10) as u8) as char).collect();
            while digs.starts_with('0') && digs.len() > 1 { digs.remove(0); }
            let p = rng.below(digs.len() + 1);
            let mut sp = if p == 0 { format!("0.{}", digs) } else if p == digs.len() { digs.clone() } else { format!("{}.{}", &digs[..p], &digs[p..]) };
            if rng.below(3) == 0 { sp = format!("{}e{}", sp, rng.below(61) as i64 - 30); }
            if rng.below(5) == 0 { sp = format!("-{}", sp); }
            cases.push(sp);
        }
        // halfway points between adjacent doubles, spelled exactly and nudged by one unit in the last place
        for _ in 0..(if thorough { 4000 } else { 800 }) {
            let bits = (rng.next() >> 12) | ((1000 + rng.below(100) as u64) << 52);
            let a = f64::from_bits(bits);
            let b = f64::from_bits(bits + 1);
            if !a.is_finite() || !b.is_finite() { continue; }
            // (a + b) / 2 has one more bit than a double: print it exactly through two doubles' decimal expansions
            let exact = |x: f64| -> String { format!("{:.80}", x) };
            let (sa, sb) = (exact(a), exact(b));
            // decimal midpoint by digit arithmetic on the fixed-point expansions (same length, same point position)
            let (ia, ib): (Vec<u8>, Vec<u8>) = (sa.bytes().filter(|c| *c != b'.').map(|c| c - b'0').collect(), sb.bytes().filter(|c| *c != b'.').map(|c| c - b'0').collect());
            if ia.len() != ib.len() { continue; }
            let mut sum = vec![0u8; ia.len() + 1]; let mut carry = 0u8;
            for i in (0..ia.len()).rev() { let t = ia[i] + ib[i] + carry; sum[i + 1] = t % 10; carry = t / 10; }
            sum[0] = carry;
            // halve (append a digit for the possible .5)
            let mut half = vec![]; let mut rem = 0u8; for d in sum.iter().chain([0u8].iter()) { let cur = rem * 10 + d; half.push(cur / 2); rem = cur % 2; }
            let point = sa.find('.').unwrap() + 1; // one more integer digit from the carry
            let mid: String = half.iter().enumerate().map(|(i, d)| if i == point { format!(".{}", d) } else { d.to_string() }).collect();
            let mid = mid.trim_start_matches('0').to_string(); let mid = if mid.starts_with('.') { format!("0{}", mid) } else { mid };
            cases.push(mid.clone()); cases.push(format!("{}1", mid));
        }
        for sp in cases {
            if !sp.parse::<f64>().map(|f| f.is_finite()).unwrap_or(false) { continue; }
            let got = canon_text(&RefValue::Num(sp.clone()));
            let want = ref_number(&sp);
            rep.eval(true, fnv(sp.as_bytes()));
            if got != want { rep.violation("number rendering == ECMAScript rendering of the NEAREST double", "number-nearest", sp.clone(), format!("real={} expected={}", got, want)); }
        }
    }
    let n = if thorough { 40_000 } else { 6_000 };
    for it in 0..n {
        // a random duplicate-free object, nested
        let mut pick = |rng: &mut Rng, depth: usize| -> RefValue {
            fn go(rng: &mut Rng, depth: usize, keys: &[&str]) -> RefValue {
                match rng.below(if depth == 0 { 4 } else { 6 }) {
                    0 => RefValue::Num(if rng.below(4) == 0 { LONG_NUMBERS[rng.below(LONG_NUMBERS.len())].to_string() } else { NUMBERS[rng.below(NUMBERS.len())].0.to_string() }),
                    1 => RefValue::Str(keys[rng.below(keys.len())].to_string()),
                    2 => RefValue::Null, 3 => RefValue::Bool(rng.below(2) == 0),
                    4 => RefValue::Arr((0..rng.below(3)).map(|_| go(rng, depth - 1, keys)).collect()),
                    _ => { let mut ks: Vec<&str> = keys.to_vec(); let m = rng.below(5); let mut es = vec![]; for _ in 0..m { let i = rng.below(ks.len()); let k = ks.remove(i); es.push((k.to_string(), go(rng, depth - 1, keys))); } RefValue::Obj(es) }
                }
            }
            go(rng, depth, &keys)
        };
        let v = { let mut ks: Vec<&str> = keys.to_vec(); let m = 2 + rng.below(4); let mut es = vec![]; for _ in 0..m { let i = rng.below(ks.len()); let k = ks.remove(i); es.push((k.to_string(), pick(&mut rng, 2))); } RefValue::Obj(es) };
        let got = canon_text(&v);
        rep.eval(true, fnv(got.as_bytes()) ^ it);
        if prop == "C09" {
            let mut want = String::new(); ref_compact(&ref_canon(&v, &num_ident), &mut want);
            if got != want { rep.violation("canonical output == RFC 8785 reference", "canon", format!("{:?}", v), format!("real={:?} reference={:?}", got, want)); }
        } else {
            // idempotent
            let mut r = to_real(&v); r.canonicalize(); let once = r.clone(); r.canonicalize();
            if r != once { rep.violation("canonicalization is idempotent", "idempotent", format!("{:?}", v), "second pass changed the value".into()); }
            // blind to member order (shuffle at the top level and one level down)
            let shuffled = shuffle(&v, &mut rng);
            let got2 = canon_text(&shuffled);
            if got2 != got { rep.violation("canonical output blind to member order", "order", format!("{:?} vs {:?}", v, shuffled), format!("{:?} vs {:?}", got, got2)); }
            // blind to numerically equal spellings, at every position of the value (also arrays in arrays)
            let respelled = respell(&v, &mut rng);
            let got3 = canon_text(&respelled);
            if got3 != got { rep.violation("numerically equal spellings have the same canonical output", "number-eq-nested", format!("{:?} vs {:?}", v, respelled), format!("{:?} vs {:?}", got, got3)); }
            // blind to whitespace / escape spelling: print differently, parse, canonicalize
            let pretty = to_real(&v).pretty_print().to_string();
            if let Ok((mut back, _)) = Value::parse_str(&pretty) { back.canonicalize(); if back.compact_print().to_string() != got { rep.violation("canonical output blind to whitespace", "spacing", format!("{:?}", v), "".into()); } }
            // the same value written differently (whitespace, escape spellings, number spellings, member order, all at once)
            let mut doc = String::new(); variant_text(&shuffled, &mut rng, &mut doc);
            match Value::parse_str(&doc) {
                Ok((mut back, _)) => { back.canonicalize(); let got4 = back.compact_print().to_string(); if got4 != got { rep.violation("canonical output blind to whitespace, escape spelling, number spelling and member order", "rewriting", format!("{:?} written as {:?}", v, doc), format!("{:?} vs {:?}", got, got4)); } }
                Err(e) => rep.violation("(reference self-check) a rewriting of the document parses", "rewriting-parse", doc.clone(), format!("{:?}", e)),
            }
            // nothing else changes: structure, strings, booleans, nulls; and still queryable by key
            let want_shape = ref_canon(&v, &|s: &str| s.to_string());
            let got_shape = by_key(&strip_numbers(&from_real(&once))); if got_shape != by_key(&strip_numbers(&want_shape)) { rep.violation("canonicalization preserves structure/strings/literals", "shape", format!("{:?}", v), format!("{:?}", from_real(&once))); }
            // every number keeps its double value (the nearest double of the old spelling is the nearest double of the new one)
            if by_key(&numbers_as_doubles(&from_real(&once))) != by_key(&numbers_as_doubles(&want_shape)) { rep.violation("every number keeps its double value", "double-value", format!("{:?}", v), format!("{:?}", from_real(&once))); }
            if let Value::Object(o) = &once { for (i, e) in o.entries().iter().enumerate() { if o.index_of(e.key.as_str()) != Some(i) || o.get(e.key.as_str()).count() != 1 { rep.violation("object queryable by key after canonicalization", "queryable", format!("{:?}", v), format!("key {:?}", e.key.as_str())); } } }
        }
    }
    if prop == "C10" {
        // every container nesting of depth <= 3 around a number that needs respelling and around an
        // object that needs sorting
        let wrap = |k: usize, x: RefValue| -> RefValue { match k { 0 => RefValue::Arr(vec![x]), 1 => RefValue::Arr(vec![RefValue::Null, x]), _ => RefValue::Obj(vec![("k".to_string(), x)]) } };
        for k1 in 0..3 { for k2 in 0..3 { for k3 in 0..3 {
            let a = wrap(k1, wrap(k2, wrap(k3, RefValue::Num("1.0".into())))); let b = wrap(k1, wrap(k2, wrap(k3, RefValue::Num("1".into()))));
            let (x, y) = (canon_text(&a), canon_text(&b));
            rep.eval(true, fnv(x.as_bytes()) ^ (k1 * 9 + k2 * 3 + k3) as u64);
            if x != y { rep.violation("numerically equal spellings have the same canonical output", "number-eq-nesting", format!("{:?} vs {:?}", a, b), format!("{} vs {}", x, y)); }
            let o1 = RefValue::Obj(vec![("b".into(), RefValue::Num("1".into())), ("a".into(), RefValue::Num("2".into()))]);
            let o2 = RefValue::Obj(vec![("a".into(), RefValue::Num("2".into())), ("b".into(), RefValue::Num("1".into()))]);
            let (x, y) = (canon_text(&wrap(k1, wrap(k2, wrap(k3, o1)))), canon_text(&wrap(k1, wrap(k2, wrap(k3, o2)))));
            if x != y { rep.violation("canonical output blind to member order", "order-nesting", format!("nesting {} {} {}", k1, k2, k3), format!("{} vs {}", x, y)); }
        } } }
        for (a, b) in [("1.0", "1"), ("10e-1", "1"), ("1e2", "100"), ("4.50", "4.5"), ("-0", "0")] {
            let x = canon_text(&RefValue::Arr(vec![RefValue::Num(a.into())])); let y = canon_text(&RefValue::Arr(vec![RefValue::Num(b.into())]));
            rep.eval(true, fnv(a.as_bytes()));
            if x != y { rep.violation("numerically equal spellings have the same canonical output", &format!("number-eq:{}", a), format!("{} vs {}", a, b), format!("{} vs {}", x, y)); }
        }
    }
    rep.sample("{\"\\ue000\":1,\"\\ud800\\udc00\":2}  (UTF-16 order puts U+10000 before U+E000)".into());
}

/// members ordered by key text (order is C09's concern, not C10's)
fn by_key(v: &RefValue) -> RefValue { match v { RefValue::Arr(a) => RefValue::Arr(a.iter().map(by_key).collect()), RefValue::Obj(es) => { let mut es: Vec<(String, RefValue)> = es.iter().map(|(k, x)| (k.clone(), by_key(x))).collect(); es.sort(); RefValue::Obj(es) } o => o.clone() } }

fn strip_numbers(v: &RefValue) -> RefValue { match v { RefValue::Num(_) => RefValue::Num("#".into()), RefValue::Arr(a) => RefValue::Arr(a.iter().map(strip_numbers).collect()), RefValue::Obj(es) => RefValue::Obj(es.iter().map(|(k, x)| (k.clone(), strip_numbers(x))).collect()), o => o.clone() } }

/// every number replaced by the bits of the double nearest to it (C10: "each number keeps its double value")
fn numbers_as_doubles(v: &RefValue) -> RefValue { match v { RefValue::Num(s) => RefValue::Num(format!("{:016x}", { let f = s.parse::<f64>().unwrap(); if f == 0.0 { 0u64 } else { f.to_bits() } })), RefValue::Arr(a) => RefValue::Arr(a.iter().map(numbers_as_doubles).collect()), RefValue::Obj(es) => RefValue::Obj(es.iter().map(|(k, x)| (k.clone(), numbers_as_doubles(x))).collect()), o => o.clone() } }

/// an exactly equal spelling of a JSON number: the decimal point moved with the exponent adjusted,
/// zeros appended to the fraction, `E` / `e` / `+` varied (pure text manipulation: value-preserving
/// whatever the number of digits)
fn respell_number(n: &str, rng: &mut Rng) -> String {
    let (neg, body) = match n.strip_prefix('-') { Some(b) => (true, b), None => (false, n) };
    let (mant, exp) = match body.find(|c| c == 'e' || c == 'E') { Some(i) => (&body[..i], body[i + 1..].parse::<i64>().unwrap()), None => (body, 0) };
    let (ip, fp) = match mant.find('.') { Some(i) => (&mant[..i], &mant[i + 1..]), None => (mant, "") };
    let mut digits: String = format!("{}{}", ip, fp);
    let mut point = ip.len() as i64; // position of the decimal point inside `digits`
    let shift = rng.below(7) as i64 - 3; // move the point `shift` places to the right
    let mut new_point = point + shift;
    if new_point < 1 { let pad = (1 - new_point) as usize; digits = format!("{}{}", "0".repeat(pad), digits); new_point += pad as i64; }
    if new_point > digits.len() as i64 { let pad = (new_point - digits.len() as i64) as usize; digits.push_str(&"0".repeat(pad)); }
    point = new_point;
    let mut ipart: String = digits[..point as usize].trim_start_matches('0').to_string(); if ipart.is_empty() { ipart.push('0'); }
    let mut fpart: String = digits[point as usize..].to_string();
    fpart.push_str(&"0".repeat(rng.below(3)));
    let new_exp = exp - shift;
    let mut out = String::new(); if neg { out.push('-'); }
    out.push_str(&ipart); if !fpart.is_empty() { out.push('.'); out.push_str(&fpart); }
    if new_exp != 0 || rng.below(3) == 0 { out.push(if rng.below(2) == 0 { 'e' } else { 'E' }); if new_exp >= 0 && rng.below(2) == 0 { out.push('+'); } out.push_str(&new_exp.to_string()); }
    out
}

fn respell(v: &RefValue, rng: &mut Rng) -> RefValue {
    match v {
        RefValue::Num(n) => RefValue::Num(respell_number(n, rng)),
        RefValue::Arr(a) => RefValue::Arr(a.iter().map(|x| respell(x, rng)).collect()),
        RefValue::Obj(es) => RefValue::Obj(es.iter().map(|(k, x)| (k.clone(), respell(x, rng))).collect()),
        o => o.clone(),
    }
}

/// numbers whose digits exceed what a double holds (the nearest double must be found exactly)
const LONG_NUMBERS: [&str; 10] = ["62366.589399033819066834200497105", "2301321284722629935389", "63868144857173796.005437586005", "9007199254740993.0000000000000000001",
    "0.1000000000000000055511151231257827021181583404541015625", "13900427.572972546332283705926", "70.299427235732243027308e-4", "-532091418514.8731994837012225736992054048",
    "48705116.30047042667928001927982679829e1", "1.00000000000000011102230246251565404236316680908203125"];

/// another document for the same value: random insignificant whitespace, every string character in a
/// randomly chosen spelling (raw, `\\uXXXX` -- a surrogate pair of escapes beyond the BMP --, or a short
/// escape where one exists), numbers respelled exactly; member order as given
fn variant_text(v: &RefValue, rng: &mut Rng, out: &mut String) {
    fn wsp(rng: &mut Rng, out: &mut String) { for _ in 0..rng.below(3) { out.push([' ', '\n', '\t', '\r'][rng.below(4)]); } }
    fn string(s: &str, rng: &mut Rng, out: &mut String) {
        out.push('"');
        for c in s.chars() {
            let must = c == '"' || c == '\\' || (c as u32) < 0x20;
            match rng.below(3) {
                0 if !must => out.push(c),
                1 => { let short = match c { '"' => Some("\\\""), '\\' => Some("\\\\"), '/' => Some("\\/"), '\u{8}' => Some("\\b"), '\u{c}' => Some("\\f"), '\n' => Some("\\n"), '\r' => Some("\\r"), '\t' => Some("\\t"), _ => None };
                       match short { Some(e) => out.push_str(e), None => if must { out.push_str(&format!("\\u{:04X}", c as u32)) } else { out.push(c) } } }
                _ => { let mut buf = [0u16; 2]; for u in c.encode_utf16(&mut buf) { if rng.below(2) == 0 { out.push_str(&format!("\\u{:04x}", u)) } else { out.push_str(&format!("\\u{:04X}", u)) } } }
            }
        }
        out.push('"');
    }
    wsp(rng, out);
    match v {
        RefValue::Null => out.push_str("null"), RefValue::Bool(b) => out.push_str(if *b { "true" } else { "false" }),
        RefValue::Num(n) => out.push_str(&respell_number(n, rng)),
        RefValue::Str(s) => string(s, rng, out),
        RefValue::Arr(a) => { out.push('['); for (i, x) in a.iter().enumerate() { if i > 0 { out.push(','); } variant_text(x, rng, out); } wsp(rng, out); out.push(']'); }
        RefValue::Obj(es) => { out.push('{'); for (i, (k, x)) in es.iter().enumerate() { if i > 0 { out.push(','); } wsp(rng, out); string(k, rng, out); wsp(rng, out); out.push(':'); variant_text(x, rng, out); } wsp(rng, out); out.push('}'); }
    }
    wsp(rng, out);
}

fn shuffle(v: &RefValue, rng: &mut Rng) -> RefValue {
    match v {
        RefValue::Obj(es) => { let mut es: Vec<(String, RefValue)> = es.iter().map(|(k, x)| (k.clone(), shuffle(x, rng))).collect(); for i in (1..es.len()).rev() { let j = rng.below(i + 1); es.swap(i, j); } RefValue::Obj(es) }
        RefValue::Arr(a) => RefValue::Arr(a.iter().map(|x| shuffle(x, rng)).collect()),
        o => o.clone(),
    }
}

// ---- navigation -----------------------------------------------------------------------------------

fn navigation(thorough: bool, seed: u64, rep: &mut Report) {
    use json_syntax::array::JsonArray;
    use json_syntax::TryFromJson;
    rep.checks.push("C11: get_fragment / traversal / mapped iterators / key-based mapped lookups / TryFromJson offsets on parsed documents".into());
    rep.rule = "documents built from random token sequences that parse (nested arrays/objects, duplicate keys, empty containers, multi-byte text); every fragment index and every mapped offset is checked by re-parsing the source text of the code-map span; non-trivial = at least 3 fragments".into();
    let mut rng = Rng(seed.wrapping_mul(0x9E3779B97F4A7C15) | 1);
    let mut docs: Vec<String> = vec!["{ \"0\": [null, null], \"1\": { \"foo\": 0, \"bar\": 1 }, \"0\": null }".into(), "[{}, [], {\"a\":{}} , [[]], \"\u{e9}\"]".into(), "{\"a\":{},\"b\":[{}],\"a\":1}".into(),
        // a key occurring three to six times, other keys and containers of every shape in between
        "{\"a\":[],\"a\":{\"a\":1},\"a\":[{}],\"b\":2,\"a\":null}".into(),
        "[{\"k\":1,\"k\":[2],\"j\":{},\"k\":{\"k\":3,\"k\":4,\"k\":5},\"k\":6,\"j\":7,\"k\":8}]".into(), "{\"q\":{\"q\":{\"q\":1,\"q\":2,\"q\":3,\"q\":4},\"q\":5,\"q\":6},\"q\":7,\"r\":8,\"q\":9}".into()];
    let n = if thorough { 30_000 } else { 4_000 };
    fn gen(rng: &mut Rng, depth: usize, out: &mut String) {
        let ws = ["", " ", "\n "];
        match rng.below(if depth == 0 { 4 } else { 7 }) {
            0 => out.push_str("null"), 1 => out.push_str("true"), 2 => out.push_str("-1.5e3"), 3 => out.push_str("\"\u{e9}\\n\""),
            4 | 5 => { out.push('['); out.push_str(ws[rng.below(3)]); let m = rng.below(4); for i in 0..m { if i > 0 { out.push(','); out.push_str(ws[rng.below(3)]); } gen(rng, depth - 1, out); out.push_str(ws[rng.below(3)]); } out.push(']'); }
            _ => { out.push('{'); out.push_str(ws[rng.below(3)]); let m = if rng.below(4) == 0 { rng.below(8) } else { rng.below(4) }; for i in 0..m { if i > 0 { out.push(','); out.push_str(ws[rng.below(3)]); } out.push_str(["\"a\"", "\"b\"", "\"\u{1F600}\""][rng.below(3)]); out.push_str(ws[rng.below(3)]); out.push(':'); out.push_str(ws[rng.below(3)]); gen(rng, depth - 1, out); out.push_str(ws[rng.below(3)]); } out.push('}'); }
        }
    }
    for _ in 0..n { let mut s = String::new(); s.push_str([" ", ""][rng.below(2)]); gen(&mut rng, 3, &mut s); docs.push(s); }
    rep.bounds = vec![("documents".into(), docs.len().to_string()), ("depth".into(), "3".into())];
    for doc in &docs {
        let (v, cm) = match Value::parse_str(doc) { Ok(x) => x, Err(_) => continue };
        let frags: Vec<(usize, json_syntax::FragmentRef)> = v.traverse().collect();
        rep.eval(frags.len() >= 3, fnv(doc.as_bytes()));
        let fail = |rep: &mut Report, what: &str, detail: String| rep.violation(what, "nav", doc.clone(), detail);
        if frags.len() != cm.len() { fail(rep, "one code-map entry per traversed fragment", format!("{} vs {}", frags.len(), cm.len())); continue; }
        let text_of = |i: usize| -> &str { let e = cm.get(i).unwrap(); &doc[e.span.start()..e.span.end()] };
        for (i, f) in &frags {
            // fragment i's span is exactly its source text
            match f {
                json_syntax::FragmentRef::Value(x) => { match Value::parse_str(text_of(*i)) { Ok((y, _)) => if &&y != x { fail(rep, "span of a value fragment re-parses to it", format!("index {}", i)); }, Err(_) => fail(rep, "span of a value fragment is its exact text", format!("index {} text {:?}", i, text_of(*i))) } }
                json_syntax::FragmentRef::Key(k) => { match Value::parse_str(text_of(*i)) { Ok((Value::String(s), _)) => if s.as_str() != k.as_str() { fail(rep, "span of a key fragment", format!("index {}", i)); }, _ => fail(rep, "span of a key fragment is its exact text", format!("index {} text {:?}", i, text_of(*i))) } }
                json_syntax::FragmentRef::Entry(e) => { let t = format!("{{{}}}", text_of(*i)); match Value::parse_str(&t) { Ok((Value::Object(o), _)) => if o.len() != 1 || o.entries()[0] != **e { fail(rep, "span of an entry fragment", format!("index {}", i)); }, _ => fail(rep, "span of an entry is key..value", format!("index {} text {:?}", i, text_of(*i))) } }
            }
            // get_fragment(i) is the i-th traversed fragment
            match v.get_fragment(*i) { Ok(g) => if !same_frag(&g, f) { fail(rep, "get_fragment(i) == i-th fragment of the traversal", format!("index {}", i)); }, Err(_) => fail(rep, "get_fragment(i) in range", format!("index {}", i)) }
            // volume == size of the subtree
            if let json_syntax::FragmentRef::Value(x) = f { if cm.get(*i).unwrap().volume != x.traverse().count() { fail(rep, "volume == number of fragments of the subtree", format!("index {}", i)); } }
        }
        for d in 0..3 { match v.get_fragment(frags.len() + d) { Err(r) if r == d => {}, other => fail(rep, "index past the end rejected with the remaining distance", format!("{} -> {:?}", frags.len() + d, other.err())) } }
        // (the oracle counts by pattern, not through the library's own `is_value`: seeded change C11-r17A2)
        let n_values = frags.iter().filter(|(_, f)| matches!(f, json_syntax::FragmentRef::Value(_))).count();
        if v.volume() != n_values || v.count(|_, _| true) != frags.len() { fail(rep, "volume()/count() agree with the traversal", format!("volume() = {}, values in the traversal = {}", v.volume(), n_values)); }
        // every sub-value's volume too, and the fragment predicates against the pattern they stand for
        for (i, f) in &frags {
            use json_syntax::FragmentRef as FR;
            if let FR::Value(x) = f { let n = x.traverse().filter(|(_, g)| matches!(g, FR::Value(_))).count(); if x.volume() != n { fail(rep, "volume()/count() agree with the traversal", format!("sub-value at index {}: volume() = {}, values in its traversal = {}", i, x.volume(), n)); } }
            let want = [matches!(f, FR::Entry(_)), matches!(f, FR::Key(_)), matches!(f, FR::Value(_)), matches!(f, FR::Value(Value::Null)), matches!(f, FR::Value(Value::Number(_))), matches!(f, FR::Value(Value::String(_))), matches!(f, FR::Value(Value::Array(_))), matches!(f, FR::Value(Value::Object(_)))];
            let got = [f.is_entry(), f.is_key(), f.is_value(), f.is_null(), f.is_number(), f.is_string(), f.is_array(), f.is_object()];
            if got != want { fail(rep, "volume()/count() agree with the traversal", format!("fragment predicates (is_entry, is_key, is_value, is_null, is_number, is_string, is_array, is_object) of fragment {}: got {:?} expected {:?}", i, got, want)); }
        }
        // `count` hands its predicate every fragment with its traversal number, in order, and counts exactly the accepted ones
        { let mut seen: Vec<(usize, u8)> = Vec::new();
          let tag = |f: &json_syntax::FragmentRef| -> u8 { if f.is_entry() { 1 } else if f.is_key() { 2 } else { 3 } };
          let got = v.count(|i, f| { seen.push((i, tag(&f))); i % 3 != 1 && !f.is_key() });
          let want_seen: Vec<(usize, u8)> = frags.iter().map(|(i, f)| (*i, tag(f))).collect();
          let want = frags.iter().filter(|(i, f)| i % 3 != 1 && !f.is_key()).count();
          if seen != want_seen || got != want { fail(rep, "volume()/count() agree with the traversal", format!("count with a predicate on (number, fragment): got {} expected {}; predicate saw {} fragments, traversal has {}", got, want, seen.len(), want_seen.len())); } }
        // mapped iterators and key-based mapped lookups at every container
        for (i, f) in &frags { if let json_syntax::FragmentRef::Value(x) = f { match x {
            Value::Array(a) => { for (m, item) in a.iter_mapped(&cm, *i).zip(a.iter()) { if !std::ptr::eq(m.value, item) || !matches!(v.get_fragment(m.offset), Ok(json_syntax::FragmentRef::Value(y)) if std::ptr::eq(y, item)) { fail(rep, "array iter_mapped offsets", format!("array at {}", i)); } } }
            Value::Object(o) => {
                let all: Vec<_> = o.iter_mapped(&cm, *i).collect();
                for (m, e) in all.iter().zip(o.entries()) {
                    let ok = matches!(v.get_fragment(m.offset), Ok(json_syntax::FragmentRef::Entry(y)) if std::ptr::eq(y, e)) && matches!(v.get_fragment(m.value.key.offset), Ok(json_syntax::FragmentRef::Key(y)) if std::ptr::eq(y, &e.key)) && matches!(v.get_fragment(m.value.value.offset), Ok(json_syntax::FragmentRef::Value(y)) if std::ptr::eq(y, &e.value));
                    if !ok { fail(rep, "object iter_mapped offsets (entry, key, value)", format!("object at {}", i)); }
                }
                // every key of the object and keys it does not have (absent keys: nothing is found)
                let mut asked: Vec<String> = Vec::new();
                for e in o.entries() { for q in [e.key.as_str().to_string(), format!("{}x", e.key.as_str())] { if !asked.contains(&q) { asked.push(q); } } }
                for q in ["", "a", "absent"] { if !asked.contains(&q.to_string()) { asked.push(q.to_string()); } }
                for k in asked.iter().map(|x| x.as_str()) {
                    let want: Vec<(usize, usize, usize)> = all.iter().filter(|m| m.value.key.value.as_str() == k).map(|m| (m.offset, m.value.key.offset, m.value.value.offset)).collect();
                    let got: Vec<(usize, usize, usize)> = o.get_mapped_entries(&cm, *i, k).map(|m| (m.offset, m.value.key.offset, m.value.value.offset)).collect();
                    let got2: Vec<usize> = o.get_mapped(&cm, *i, k).map(|m| m.offset).collect();
                    let got3: Vec<(usize, usize)> = o.get_mapped_with_index(&cm, *i, k).map(|(ix, m)| (ix, m.offset)).collect();
                    let got4: Vec<(usize, usize)> = o.get_mapped_entries_with_index(&cm, *i, k).map(|(ix, m)| (ix, m.offset)).collect();
                    // ... and the key / value offsets inside the indexed entries, and the unique variants in full
                    let got5: Vec<(usize, usize, usize)> = o.get_mapped_entries_with_index(&cm, *i, k).map(|(_, m)| (m.offset, m.value.key.offset, m.value.value.offset)).collect();
                    if got5 != want { fail(rep, "key-based mapped lookups", format!("object at {} key {:?} via get_mapped_entries_with_index (entry, key, value offsets)", i, k)); }
                    match (o.get_unique_mapped_entry(&cm, *i, k), want.len()) { (Ok(Some(m)), 1) => if (m.offset, m.value.key.offset, m.value.value.offset) != want[0] { fail(rep, "get_unique_mapped_entry", format!("{:?} (entry, key, value offsets)", k)); }, (Err(d), n) if n > 1 => if (d.0.offset, d.0.value.key.offset, d.0.value.value.offset) != want[0] || (d.1.offset, d.1.value.key.offset, d.1.value.value.offset) != want[1] { fail(rep, "get_unique_mapped_entry", format!("{:?} duplicate pair", k)); }, _ => {} }
                    match (o.get_unique_mapped_entry_with_index(&cm, *i, k), want.len()) { (Ok(Some((ix, m))), 1) => if ix != idx_of(o, k)[0] || (m.offset, m.value.key.offset, m.value.value.offset) != want[0] { fail(rep, "get_unique_mapped_entry_with_index", format!("{:?}", k)); }, (Err(d), n) if n > 1 => if (d.0 .1.offset, d.0 .1.value.key.offset, d.0 .1.value.value.offset) != want[0] || (d.1 .1.offset, d.1 .1.value.key.offset, d.1 .1.value.value.offset) != want[1] || d.0 .0 != idx_of(o, k)[0] || d.1 .0 != idx_of(o, k)[1] { fail(rep, "get_unique_mapped_entry_with_index", format!("{:?} duplicate pair", k)); }, (Ok(None), 0) => {}, _ => fail(rep, "get_unique_mapped_entry_with_index verdict", format!("{:?}", k)) }
                    match (o.get_unique_mapped_with_index(&cm, *i, k), want.len()) { (Ok(Some((ix, m))), 1) => if ix != idx_of(o, k)[0] || m.offset != want[0].2 { fail(rep, "get_unique_mapped_with_index", format!("{:?}", k)); }, (Err(d), n) if n > 1 => if d.0 .1.offset != want[0].2 || d.1 .1.offset != want[1].2 || d.0 .0 != idx_of(o, k)[0] || d.1 .0 != idx_of(o, k)[1] { fail(rep, "get_unique_mapped_with_index", format!("{:?} duplicate pair", k)); }, (Ok(None), 0) => {}, _ => fail(rep, "get_unique_mapped_with_index verdict", format!("{:?}", k)) }
                    match (o.get_unique_mapped(&cm, *i, k), want.len()) { (Err(d), n) if n > 1 => if d.0.offset != want[0].2 || d.1.offset != want[1].2 { fail(rep, "get_unique_mapped", format!("{:?} duplicate pair", k)); }, _ => {} }
                    let idx: Vec<usize> = o.indexes_of(k).collect();
                    if got != want || got2 != want.iter().map(|w| w.2).collect::<Vec<_>>() || got3 != idx.iter().cloned().zip(want.iter().map(|w| w.2)).collect::<Vec<_>>() || got4 != idx.iter().cloned().zip(want.iter().map(|w| w.0)).collect::<Vec<_>>() { fail(rep, "key-based mapped lookups", format!("object at {} key {:?}", i, k)); }
                    match (o.get_unique_mapped(&cm, *i, k), want.len()) { (Ok(Some(m)), 1) => if m.offset != want[0].2 { fail(rep, "get_unique_mapped", format!("{:?}", k)); }, (Err(_), n) if n > 1 => {}, (Ok(None), 0) => {}, _ => fail(rep, "get_unique_mapped verdict", format!("{:?}", k)) }
                    match (o.get_unique_mapped_entry(&cm, *i, k), want.len()) { (Ok(Some(m)), 1) => if m.offset != want[0].0 { fail(rep, "get_unique_mapped_entry", format!("{:?}", k)); }, (Err(_), n) if n > 1 => {}, (Ok(None), 0) => {}, _ => fail(rep, "get_unique_mapped_entry verdict", format!("{:?}", k)) }
                }
            }
            _ => {}
        } } }
        // conversions carrying code-map information: kind mismatch reported at the offending fragment
        if let Value::Array(a) = &v {
            let r = <Vec<Vec<bool>> as TryFromJson>::try_from_json(&v, &cm);
            let mut expect: Option<usize> = None;
            'outer: for m in a.iter_mapped(&cm, 0) { match m.value { Value::Array(inner) => { for mm in inner.iter_mapped(&cm, m.offset) { if !matches!(mm.value, Value::Boolean(_)) { expect = Some(mm.offset); break 'outer; } } } _ => { expect = Some(m.offset); break 'outer; } } }
            match (r, expect) { (Ok(_), None) => {}, (Err(e), Some(off)) => if e.offset != off { fail(rep, "TryFromJson reports the kind mismatch at the offending fragment", format!("got {} expected {}", e.offset, off)); }, (Ok(_), Some(off)) => fail(rep, "TryFromJson accepts a wrong kind", format!("expected error at {}", off)), (Err(e), None) => fail(rep, "TryFromJson rejects a well-kinded value", format!("at {}", e.offset)) }
        }
    }
    // conversions of objects: every entry is converted, also those a later duplicate of the key
    // overrides; a wrong-kind value planted at every position is reported at its own index
    rep.checks.push("C11: TryFromJson for BTreeMap / nested Vec: wrong kind planted at every position, duplicate keys".into());
    let keysets: [&[&str]; 6] = [&["a"], &["a", "b"], &["a", "a"], &["a", "b", "a"], &["b", "a", "a", "c"], &["a", "a", "a"]];
    for ks in keysets.iter() { for planted in 0..=ks.len() { for wrong in ["true", "[1]", "{\"x\":1}", "\"s\""] { for nest in 0..2 {
        let members: Vec<String> = ks.iter().enumerate().map(|(i, k)| format!("\"{}\": {}", k, if i == planted { wrong.to_string() } else { (i + 1).to_string() })).collect();
        let obj = format!("{{ {} }}", members.join(", "));
        let doc = if nest == 0 { obj.clone() } else { format!("{{\"m\": [{{}}, {}], \"n\": []}}", obj) };
        let (v, cm) = match Value::parse_str(&doc) { Ok(x) => x, Err(_) => continue };
        rep.eval(true, fnv(doc.as_bytes()));
        let r: Result<(), (usize, String)> = if nest == 0 { <std::collections::BTreeMap<String, TNum> as TryFromJson>::try_from_json(&v, &cm).map(|_| ()).map_err(|e| (e.0, e.1)) } else { <std::collections::BTreeMap<String, Vec<std::collections::BTreeMap<String, TNum>>> as TryFromJson>::try_from_json(&v, &cm).map(|_| ()).map_err(|e| (e.0, e.1)) };
        match (r, planted < ks.len()) {
            (Ok(()), false) => {},
            (Err((off, _)), true) => { let e = cm.get(off).unwrap(); let text = &doc[e.span.start()..e.span.end()]; if text != wrong { rep.violation("TryFromJson reports the kind mismatch at the offending fragment", "tryfrom-map", doc.clone(), format!("reported index {} whose text is {:?}, planted {:?}", off, text, wrong)); } },
            (Ok(()), true) => rep.violation("TryFromJson accepts a wrong kind", "tryfrom-map", doc.clone(), format!("planted {:?} at member {}", wrong, planted)),
            (Err((off, k)), false) => rep.violation("TryFromJson rejects a well-kinded value", "tryfrom-map", doc.clone(), format!("at {} ({})", off, k)),
        }
    } } } }
    // Option / Box wrappers must pass the code-map index through
    rep.checks.push("C11: TryFromJson for Option<T> / Box<T> nested in Vec: the mismatch is reported at its own index".into());
    for doc in ["[null, true, \"x\"]", "[[true], null, [false, 0]]", "[null, [null, [1]]]", "[true, null, {\"a\":1}]"] {
        let (v, cm) = Value::parse_str(doc).unwrap();
        rep.eval(true, fnv(doc.as_bytes()));
        let r1 = <Vec<Option<bool>> as TryFromJson>::try_from_json(&v, &cm).map(|_| ()).map_err(|e| e.offset);
        let r2 = <Vec<Option<Vec<bool>>> as TryFromJson>::try_from_json(&v, &cm).map(|_| ()).map_err(|e| e.offset);
        let r3 = <Vec<Box<Option<Vec<Option<bool>>>>> as TryFromJson>::try_from_json(&v, &cm).map(|_| ()).map_err(|e| e.offset);
        // expected: the first fragment (pre-order) whose kind does not fit the target shape
        fn first_bad(v: &Value, cm: &json_syntax::CodeMap, off: usize, depth: usize, shape: &[u8]) -> Option<usize> {
            // shape: sequence of b'V' (Vec), b'O' (Option), b'B' (bool) from the outside in
            match shape.first() {
                None => None,
                Some(b'O') => if matches!(v, Value::Null) { None } else { first_bad(v, cm, off, depth, &shape[1..]) },
                Some(b'V') => match v { Value::Array(a) => { use json_syntax::array::JsonArray; for m in a.iter_mapped(cm, off) { if let Some(x) = first_bad(m.value, cm, m.offset, depth + 1, &shape[1..]) { return Some(x); } } None } _ => Some(off) },
                Some(_) => if matches!(v, Value::Boolean(_)) { None } else { Some(off) },
            }
        }
        for (name, r, shape) in [("Vec<Option<bool>>", r1, &b"VOB"[..]), ("Vec<Option<Vec<bool>>>", r2, &b"VOVB"[..]), ("Vec<Box<Option<Vec<Option<bool>>>>>", r3, &b"VOVOB"[..])] {
            let want = first_bad(&v, &cm, 0, 0, shape);
            match (r, want) { (Ok(()), None) => {}, (Err(o), Some(w)) if o == w => {}, (got, want) => rep.violation("TryFromJson reports the kind mismatch at the offending fragment", "tryfrom-option", format!("{} as {}", doc, name), format!("got {:?} expected {:?}", got, want)) }
        }
    }
    // the kinds a mismatch report names: `found` is the kind of the offending value, `expected` does
    // not contain it and contains every kind the target does accept
    rep.checks.push("C11: TryFromJson leaf / container conversions: the mismatch names the kind found and the kinds accepted".into());
    {
        use json_syntax::{Kind, KindSet, Unexpected};
        const SAMPLES: [&str; 6] = ["null", "true", "1", "\"s\"", "[]", "{}"];
        fn kinds_check<T>(rep: &mut Report, name: &str, get: impl Fn(T::Error) -> (usize, Option<Unexpected>)) where T: TryFromJson {
            let mut accepted: Vec<Kind> = Vec::new();
            let mut reports: Vec<(String, Kind, usize, Unexpected)> = Vec::new();
            for s in SAMPLES { for wrap in 0..2 {
                let doc = if wrap == 0 { s.to_string() } else { format!("[[], {}]", s) };
                let (v, cm) = Value::parse_str(&doc).unwrap();
                rep.eval(true, fnv(doc.as_bytes()) ^ fnv(name.as_bytes()));
                let (target, off) = if wrap == 0 { (&v, 0usize) } else { (&v.as_array().unwrap()[1], 2usize) };
                match T::try_from_json_at(target, &cm, off) {
                    Ok(_) => if !accepted.contains(&target.kind()) { accepted.push(target.kind()) },
                    Err(e) => { let (o, u) = get(e); if let Some(u) = u { reports.push((doc.clone(), target.kind(), off, u)); if o != off { rep.violation("TryFromJson reports the kind mismatch at the offending fragment", "tryfrom-kinds", format!("{} as {}", doc, name), format!("reported index {} expected {}", o, off)); } } }
                }
            } }
            for (doc, kind, _off, u) in reports {
                let exp: KindSet = u.expected;
                let has = |k: Kind| exp.iter().any(|x| x == k);
                if u.found != kind || has(kind) || accepted.iter().any(|k| !has(*k)) {
                    rep.violation("TryFromJson names the kind found and the kinds accepted", "tryfrom-kinds", format!("{} as {}", doc, name), format!("found={:?} expected={:?}; the value is {:?}, the target accepts {:?}", u.found, exp, kind, accepted));
                }
            }
        }
        fn plain(e: json_syntax::code_map::Mapped<Unexpected>) -> (usize, Option<Unexpected>) { (e.offset, Some(e.value)) }
        fn num<T>(e: json_syntax::code_map::Mapped<json_syntax::TryIntoNumberError<T>>) -> (usize, Option<Unexpected>) { (e.offset, match e.value { json_syntax::TryIntoNumberError::Unexpected(u) => Some(u), _ => None }) }
        kinds_check::<()>(rep, "()", plain);
        kinds_check::<bool>(rep, "bool", plain);
        kinds_check::<String>(rep, "String", plain);
        kinds_check::<Box<String>>(rep, "Box<String>", plain);
        kinds_check::<Vec<bool>>(rep, "Vec<bool>", plain);
        kinds_check::<u8>(rep, "u8", num); kinds_check::<u16>(rep, "u16", num); kinds_check::<u32>(rep, "u32", num); kinds_check::<u64>(rep, "u64", num);
        kinds_check::<i8>(rep, "i8", num); kinds_check::<i16>(rep, "i16", num); kinds_check::<i32>(rep, "i32", num); kinds_check::<i64>(rep, "i64", num);
        kinds_check::<usize>(rep, "usize", num); kinds_check::<isize>(rep, "isize", num); kinds_check::<f32>(rep, "f32", num); kinds_check::<f64>(rep, "f64", num);
    }
    rep.sample(docs[0].clone());
}

/// a number leaf whose conversion error carries the code-map index (for the BTreeMap conversions)
struct TNum;
struct TErr(usize, String);
impl From<json_syntax::code_map::Mapped<json_syntax::Unexpected>> for TErr { fn from(e: json_syntax::code_map::Mapped<json_syntax::Unexpected>) -> Self { TErr(e.offset, format!("{:?}", e.value.found)) } }
impl From<json_syntax::code_map::Mapped<std::convert::Infallible>> for TErr { fn from(e: json_syntax::code_map::Mapped<std::convert::Infallible>) -> Self { match e.value {} } }
impl json_syntax::TryFromJson for TNum {
    type Error = TErr;
    fn try_from_json_at(json: &Value, _: &json_syntax::CodeMap, offset: usize) -> Result<Self, TErr> { match json { Value::Number(_) => Ok(TNum), other => Err(TErr(offset, format!("{:?}", other.kind()))) } }
}

fn same_frag(a: &json_syntax::FragmentRef, b: &json_syntax::FragmentRef) -> bool {
    use json_syntax::FragmentRef as F;
    match (a, b) { (F::Value(x), F::Value(y)) => std::ptr::eq(*x, *y), (F::Entry(x), F::Entry(y)) => std::ptr::eq(*x, *y), (F::Key(x), F::Key(y)) => std::ptr::eq(*x, *y), _ => false }
}

// ---- KindSet renderings -----------------------------------------------------------------------------

fn renderings(rep: &mut Report) {
    // the kind reported for a value matches its variant: several values per variant (both booleans, zero and
    // non-zero numbers, empty and non-empty strings / arrays / objects) against all six kinds and the `is_*` tests
    rep.checks.push("C20: kind() / is_kind(k) / is_null .. is_object for several values of every variant x all six kinds".into());
    {
        let ks = [Kind::Null, Kind::Boolean, Kind::Number, Kind::String, Kind::Array, Kind::Object];
        let samples: [(&str, usize); 12] = [("null", 0), ("true", 1), ("false", 1), ("0", 2), ("-1.5e3", 2), ("\"\"", 3), ("\"x\"", 3), ("[]", 4), ("[null]", 4), ("[false,0]", 4), ("{}", 5), ("{\"a\":false}", 5)];
        for (doc, want) in samples {
            let (v, _) = Value::parse_str(doc).unwrap();
            rep.eval(true, fnv(doc.as_bytes()));
            if v.kind() != ks[want] { rep.violation("the kind reported for a value matches its variant", "kind", doc.to_string(), format!("kind() = {:?}", v.kind())); }
            for (i, k) in ks.iter().enumerate() { if v.is_kind(*k) != (i == want) { rep.violation("the kind reported for a value matches its variant", "is_kind", doc.to_string(), format!("is_kind({:?}) = {}", k, v.is_kind(*k))); } }
            let tests = [v.is_null(), v.is_boolean(), v.is_number(), v.is_string(), v.is_array(), v.is_object()];
            for (i, t) in tests.iter().enumerate() { if *t != (i == want) { rep.violation("the kind reported for a value matches its variant", "is_x", doc.to_string(), format!("is_{:?}() = {}", ks[i], t)); } }
        }
    }
    rep.checks.push("C20: Display / as_disjunction / as_conjunction for all 64 sets (exhaustive execution)".into());
    rep.rule = "all 64 kind sets built through the public API; every rendering compared with the documented shapes; exhaustive".into();
    let kinds = [Kind::Null, Kind::Boolean, Kind::Number, Kind::String, Kind::Array, Kind::Object];
    let names = ["null", "boolean", "number", "string", "array", "object"];
    for bits in 0u32..64 {
        let mut s = KindSet::none();
        let mut ns: Vec<&str> = vec![];
        for i in 0..6 { if bits & (1 << i) != 0 { s |= kinds[i]; ns.push(names[i]); } }
        rep.eval(true, bits as u64);
        let joined = |last: &str| -> String { match ns.len() { 0 => "nothing".into(), 6 => "anything".into(), 1 => ns[0].into(), n => format!("{} {} {}", ns[..n - 1].join(", "), last, ns[n - 1]) } };
        let d = s.as_disjunction().to_string(); let c = s.as_conjunction().to_string(); let p = s.to_string();
        if d != joined("or") { rep.violation("as_disjunction", &format!("set:{}", bits), format!("{:?}", ns), d); }
        if c != joined("and") { rep.violation("as_conjunction", &format!("set:{}", bits), format!("{:?}", ns), c); }
        if p != ns.join(", ") { rep.violation("Display", &format!("set:{}", bits), format!("{:?}", ns), p); }
        for (i, k) in kinds.iter().enumerate() { if k.to_string() != names[i] { rep.violation("Kind Display", "kind", names[i].into(), k.to_string()); } }
    }
    rep.sample("{null, string, object} -> \"null, string or object\"".into());
    // the set algebra, executed (the Kani harnesses are the proof; this supplies the failing input): every
    // operator form on all 64 x 64 pairs of sets and all set x kind / kind x kind pairs, read back through
    // iteration, against the bit semantics
    rep.checks.push("C20: | & |= &= in every operand combination (set/set, set/kind, kind/set, kind/kind), len, is_empty for all 64 x 64 sets x 6 kinds (exhaustive execution, read back through iter())".into());
    let build = |bits: u32| -> KindSet { let mut s = KindSet::none(); for i in 0..6 { if bits & (1 << i) != 0 { s |= kinds[i]; } } s };
    let mask = |s: KindSet| -> u32 { let mut m = 0u32; for k in s.iter() { m |= 1 << kinds.iter().position(|x| *x == k).unwrap(); } m };
    let mut bad = |rep: &mut Report, what: String, got: u32, want: u32| { if got != want { rep.violation("KindSet operators agree with set semantics", "kindset-op", what, format!("got members {:06b} expected {:06b} (bit i = i-th kind of null, boolean, number, string, array, object)", got, want)); } };
    for a in 0u32..64 {
        let sa = build(a);
        bad(rep, format!("iter() of the set built from bits {:06b}", a), mask(sa), a);
        if sa.len() != a.count_ones() as usize || sa.is_empty() != (a == 0) { rep.violation("KindSet operators agree with set semantics", "kindset-op", format!("len/is_empty of {:06b}", a), format!("len {} is_empty {}", sa.len(), sa.is_empty())); }
        for b in 0u32..64 {
            let sb = build(b);
            rep.eval(true, (a * 64 + b) as u64);
            bad(rep, format!("{:06b} | {:06b}", a, b), mask(sa | sb), a | b);
            bad(rep, format!("{:06b} & {:06b}", a, b), mask(sa & sb), a & b);
            let mut t = sa; t |= sb; bad(rep, format!("{:06b} |= {:06b}", a, b), mask(t), a | b);
            let mut t = sa; t &= sb; bad(rep, format!("{:06b} &= {:06b}", a, b), mask(t), a & b);
        }
        for (i, k) in kinds.iter().enumerate() {
            let kb = 1u32 << i;
            bad(rep, format!("{:06b} | {:?}", a, k), mask(sa | *k), a | kb);
            bad(rep, format!("{:06b} & {:?}", a, k), mask(sa & *k), a & kb);
            bad(rep, format!("{:?} | {:06b}", k, a), mask(*k | sa), a | kb);
            bad(rep, format!("{:?} & {:06b}", k, a), mask(*k & sa), a & kb);
            let mut t = sa; t |= *k; bad(rep, format!("{:06b} |= {:?}", a, k), mask(t), a | kb);
            let mut t = sa; t &= *k; bad(rep, format!("{:06b} &= {:?}", a, k), mask(t), a & kb);
        }
    }
    for (i, k1) in kinds.iter().enumerate() { for (j, k2) in kinds.iter().enumerate() {
        bad(rep, format!("{:?} | {:?}", k1, k2), mask(*k1 | *k2), (1 << i) | (1 << j));
        bad(rep, format!("{:?} & {:?}", k1, k2), mask(*k1 & *k2), (1 << i) & (1 << j));
    } }
}
