//! Bounded stand-ins for the object family (C06 C14 C15): every history of at most N operations over
//! a small key/value alphabet against the plain-list model (also exercises the IndexMap functions whose
//! contracts are assumed in the Verus unit: remove / shift_down / shift_up / contains_duplicate_keys).
use crate::refjson::*;
use crate::{fnv, from_real, to_real, Report, Rng};
use json_syntax::object::Entry;
use json_syntax::{BorrowUnordered, Object, Value};
use std::collections::hash_map::DefaultHasher;
use std::hash::{Hash, Hasher};

type Model = Vec<(String, RefValue)>;

#[derive(Clone, Copy, Debug, PartialEq)]
enum Op { MutAll(u8), Push(u8, u8), PushFront(u8, u8), Insert(u8, u8, u8), InsertFront(u8, u8, u8), Remove(u8, u8), RemoveUnique(u8), RemoveAt(u8), Sort, Clone, FromVec, Extend(u8, u8), SetAll(u8, u8), GetOrInsert(u8, u8), GetMutOrInsert(u8, u8), SetUnique(u8, u8) }

const KEYS: [&str; 2] = ["a", "b"];
fn val(i: u8) -> RefValue { RefValue::Num(if i == 0 { "1".into() } else { "2".into() }) }

fn all_ops() -> Vec<Op> {
    let mut v = vec![Op::Sort, Op::Clone, Op::FromVec, Op::MutAll(0), Op::MutAll(1)];
    for k in 0..2u8 { for x in 0..2u8 {
        v.push(Op::Push(k, x)); v.push(Op::PushFront(k, x)); v.push(Op::Extend(k, x)); v.push(Op::SetAll(k, x)); v.push(Op::GetOrInsert(k, x)); v.push(Op::GetMutOrInsert(k, x)); v.push(Op::SetUnique(k, x));
        for m in 0..3u8 { v.push(Op::Insert(k, x, m)); v.push(Op::InsertFront(k, x, m)); }
    } for m in 0..3u8 { v.push(Op::Remove(k, m)); } v.push(Op::RemoveUnique(k)); }
    for i in 0..4u8 { v.push(Op::RemoveAt(i)); }
    v
}

fn entry_ref(e: &Entry) -> (String, RefValue) { (e.key.as_str().to_string(), from_real(&e.value)) }

/// take `mode` items from an iterator of removed entries: 0 = drop untouched, 1 = one item, 2 = all
fn consume(it: impl Iterator<Item = Entry>, mode: u8) -> Vec<(String, RefValue)> {
    let mut it = it;
    let mut out = vec![];
    match mode { 0 => {}, 1 => { if let Some(e) = it.next() { out.push(entry_ref(&e)); } }, _ => { for e in it.by_ref() { out.push(entry_ref(&e)); } } }
    out
}
fn prefix(full: &[(String, RefValue)], mode: u8) -> Vec<(String, RefValue)> { match mode { 0 => vec![], 1 => full.iter().take(1).cloned().collect(), _ => full.to_vec() } }

fn apply(op: Op, obj: &mut Object, m: &mut Model) -> Option<String> {
    match op {
        Op::Push(k, x) => { let fresh = !m.iter().any(|(k2, _)| k2 == KEYS[k as usize]); let got = obj.push(KEYS[k as usize].into(), to_real(&val(x))); m.push((KEYS[k as usize].into(), val(x))); if got != fresh { return Some(format!("push returned {} expected {}", got, fresh)); } }
        Op::PushFront(k, x) => { let fresh = !m.iter().any(|(k2, _)| k2 == KEYS[k as usize]); let got = obj.push_front(KEYS[k as usize].into(), to_real(&val(x))); m.insert(0, (KEYS[k as usize].into(), val(x))); if got != fresh { return Some(format!("push_front returned {} expected {}", got, fresh)); } }
        Op::Extend(k, x) => { obj.extend(vec![(json_syntax::object::Key::from(KEYS[k as usize]), to_real(&val(x))), (json_syntax::object::Key::from(KEYS[(1 - k) as usize]), to_real(&val(x)))]); m.push((KEYS[k as usize].into(), val(x))); m.push((KEYS[(1 - k) as usize].into(), val(x))); }
        Op::MutAll(x) => {
            // `iter_mut()`: every member in order, key shared, value mutable
            let mut i = 0usize;
            for (k, v) in obj.iter_mut() { if i >= m.len() || k.as_str() != m[i].0 { return Some(format!("iter_mut yields key {:?} at position {}", k.as_str(), i)); } if i % 2 == 0 { *v = to_real(&val(x)); m[i].1 = val(x); } i += 1; }
            if i != m.len() { return Some(format!("iter_mut yields {} members, the object has {}", i, m.len())); }
        }
        Op::SetAll(k, x) => { for v in obj.get_mut(KEYS[k as usize]) { *v = to_real(&val(x)); } for e in m.iter_mut() { if e.0 == KEYS[k as usize] { e.1 = val(x); } } }
        Op::GetOrInsert(k, x) => {
            // first value of the key, or one entry pushed at the end with the value the closure returns
            let key = KEYS[k as usize];
            let pos = m.iter().position(|(k2, _)| k2 == key);
            let got = from_real(obj.get_or_insert_with(key, || to_real(&val(x))));
            let want = match pos { Some(i) => m[i].1.clone(), None => { m.push((key.into(), val(x))); val(x) } };
            if got != want { return Some(format!("get_or_insert_with({}) returned {:?} expected {:?}", key, got, want)); }
        }
        Op::GetMutOrInsert(k, x) => {
            // same, and the returned reference is written through: exactly that value changes
            let key = KEYS[k as usize];
            let pos = match m.iter().position(|(k2, _)| k2 == key) { Some(i) => i, None => { m.push((key.into(), val(1 - x))); m.len() - 1 } };
            let r = obj.get_mut_or_insert_with(key, || to_real(&val(1 - x)));
            if from_real(r) != m[pos].1 { return Some(format!("get_mut_or_insert_with({}) handed out {:?} expected {:?}", key, from_real(r), m[pos].1)); }
            *r = to_real(&val(x));
            m[pos].1 = val(x);
        }
        Op::SetUnique(k, x) => {
            let key = KEYS[k as usize];
            let idx: Vec<usize> = m.iter().enumerate().filter(|(_, (k2, _))| k2 == key).map(|(i, _)| i).collect();
            match (obj.get_unique_mut(key), idx.len()) {
                (Ok(None), 0) => {}
                (Ok(Some(v)), 1) => { if from_real(v) != m[idx[0]].1 { return Some("get_unique_mut value".into()); } *v = to_real(&val(x)); m[idx[0]].1 = val(x); }
                (Err(d), n) if n >= 2 => { if entry_ref(d.0) != m[idx[0]] || entry_ref(d.1) != m[idx[1]] { return Some("get_unique_mut duplicates".into()); } }
                _ => return Some(format!("get_unique_mut({}) wrong", key)),
            }
        }
        Op::Insert(k, x, mode) => {
            let key = KEYS[k as usize];
            let first = m.iter().position(|(k2, _)| k2 == key);
            let mut expect = vec![];
            match first { Some(i) => { expect.push(m[i].clone()); m[i] = (key.into(), val(x)); let mut j = i + 1; while j < m.len() { if m[j].0 == key { expect.push(m.remove(j)); } else { j += 1; } } } None => m.push((key.into(), val(x))) }
            let got = match obj.insert(key.into(), to_real(&val(x))) { Some(it) => Some(consume(it, mode)), None => None };
            match (got, first) { (None, None) => {}, (Some(g), Some(_)) => if g != prefix(&expect, mode) { return Some(format!("insert yielded {:?} expected {:?}", g, prefix(&expect, mode))); }, (g, f) => return Some(format!("insert returned {:?} but key presence was {:?}", g.is_some(), f.is_some())) }
        }
        Op::InsertFront(k, x, mode) => {
            let key = KEYS[k as usize];
            let mut expect = vec![];
            if !m.is_empty() && m[0].0 == key { expect.push(m[0].clone()); m[0] = (key.into(), val(x)); } else { m.insert(0, (key.into(), val(x))); }
            let mut j = 1; while j < m.len() { if m[j].0 == key { expect.push(m.remove(j)); } else { j += 1; } }
            let g = consume(obj.insert_front(key.into(), to_real(&val(x))), mode);
            if g != prefix(&expect, mode) { return Some(format!("insert_front yielded {:?} expected {:?}", g, prefix(&expect, mode))); }
        }
        Op::Remove(k, mode) => {
            let key = KEYS[k as usize];
            let expect: Vec<_> = m.iter().filter(|(k2, _)| k2 == key).cloned().collect();
            m.retain(|(k2, _)| k2 != key);
            let g = consume(obj.remove(key), mode);
            if g != prefix(&expect, mode) { return Some(format!("remove yielded {:?} expected {:?}", g, prefix(&expect, mode))); }
        }
        Op::RemoveUnique(k) => {
            let key = KEYS[k as usize];
            let matching: Vec<_> = m.iter().filter(|(k2, _)| k2 == key).cloned().collect();
            let got = obj.remove_unique(key);
            m.retain(|(k2, _)| k2 != key);
            match (got, matching.len()) {
                (Ok(None), 0) => {}
                (Ok(Some(e)), 1) => if entry_ref(&e) != matching[0] { return Some("remove_unique returned the wrong entry".into()); },
                (Err(d), n) if n >= 2 => if entry_ref(&d.0) != matching[0] || entry_ref(&d.1) != matching[1] { return Some("remove_unique reported the wrong duplicates".into()); },
                (g, n) => return Some(format!("remove_unique: {} matching entries but result {:?}", n, g.map(|o| o.is_some()).map_err(|_| "Duplicate"))),
            }
        }
        Op::RemoveAt(i) => { let i = i as usize; let expect = if i < m.len() { Some(m.remove(i)) } else { None }; let got = obj.remove_at(i).map(|e| entry_ref(&e)); if got != expect { return Some(format!("remove_at({}) returned {:?} expected {:?}", i, got, expect)); } }
        Op::Sort => { obj.sort(); m.sort(); }
        Op::Clone => { let c = obj.clone(); if &c != obj { return Some("clone != original".into()); } *obj = c; }
        Op::FromVec => { let v: Vec<Entry> = obj.entries().to_vec(); *obj = Object::from_vec(v); }
    }
    None
}

fn check_state(obj: &Object, m: &Model) -> Option<String> {
    let got: Model = obj.entries().iter().map(entry_ref).collect();
    if &got != m { return Some(format!("entries {:?} but the list model says {:?}", got, m)); }
    if obj.len() != m.len() || obj.is_empty() != m.is_empty() { return Some("len/is_empty".into()); }
    for key in ["a", "b", "zz"] {
        let idx: Vec<usize> = m.iter().enumerate().filter(|(_, (k, _))| k == key).map(|(i, _)| i).collect();
        if obj.contains_key(key) != !idx.is_empty() { return Some(format!("contains_key({}) wrong", key)); }
        if obj.index_of(key) != idx.first().copied() { return Some(format!("index_of({}) = {:?} expected {:?}", key, obj.index_of(key), idx.first())); }
        if obj.redundant_index_of(key) != idx.get(1).copied() { return Some(format!("redundant_index_of({}) = {:?} expected {:?}", key, obj.redundant_index_of(key), idx.get(1))); }
        if obj.indexes_of(key).collect::<Vec<_>>() != idx { return Some(format!("indexes_of({}) = {:?} expected {:?}", key, obj.indexes_of(key).collect::<Vec<_>>(), idx)); }
        let vals: Vec<RefValue> = idx.iter().map(|&i| m[i].1.clone()).collect();
        if obj.get(key).map(from_real).collect::<Vec<_>>() != vals { return Some(format!("get({}) wrong", key)); }
        if obj.get_entries(key).map(entry_ref).collect::<Vec<_>>() != idx.iter().map(|&i| m[i].clone()).collect::<Vec<_>>() { return Some(format!("get_entries({}) wrong", key)); }
        if obj.get_with_index(key).map(|(i, v)| (i, from_real(v))).collect::<Vec<_>>() != idx.iter().map(|&i| (i, m[i].1.clone())).collect::<Vec<_>>() { return Some(format!("get_with_index({}) wrong", key)); }
        if obj.get_entries_with_index(key).map(|(i, e)| (i, entry_ref(e))).collect::<Vec<_>>() != idx.iter().map(|&i| (i, m[i].clone())).collect::<Vec<_>>() { return Some(format!("get_entries_with_index({}) wrong", key)); }
        match (obj.get_unique(key), idx.len()) { (Ok(None), 0) => {}, (Ok(Some(v)), 1) => if from_real(v) != m[idx[0]].1 { return Some("get_unique value".into()); }, (Err(_), n) if n >= 2 => {}, _ => return Some(format!("get_unique({}) wrong", key)) }
        match (obj.get_unique_entry(key), idx.len()) { (Ok(None), 0) => {}, (Ok(Some(e)), 1) => if entry_ref(e) != m[idx[0]] { return Some("get_unique_entry".into()); }, (Err(d), n) if n >= 2 => if entry_ref(d.0) != m[idx[0]] || entry_ref(d.1) != m[idx[1]] { return Some("get_unique_entry duplicates".into()); }, _ => return Some(format!("get_unique_entry({}) wrong", key)) }
    }
    if obj.first().map(entry_ref) != m.first().cloned() || obj.last().map(entry_ref) != m.last().cloned() { return Some("first/last".into()); }
    None
}

fn hash_of<T: Hash>(t: &T) -> u64 { let mut h = DefaultHasher::new(); t.hash(&mut h); h.finish() }

pub fn run(prop: &str, thorough: bool, seed: u64, rep: &mut Report) {
    match prop {
        "C06" | "C14" => histories(prop, thorough, seed, rep),
        "C15" => unordered(thorough, seed, rep),
        _ => {}
    }
}

fn histories(prop: &str, thorough: bool, seed: u64, rep: &mut Report) {
    let ops = all_ops();
    let depth = if thorough { 4 } else { 3 };
    rep.bounds = vec![("operations".into(), ops.len().to_string()), ("history_len".into(), depth.to_string()), ("keys".into(), "2".into()), ("values".into(), "2".into())];
    rep.rule = "every history of at most N operations (push, push_front, insert/insert_front/remove with the returned iterator dropped untouched, advanced once, or drained, remove_unique, remove_at, sort, clone, from_vec, extend, in-place value mutation through get_mut / get_unique_mut / get_mut_or_insert_with, get_or_insert_with) from the empty object and from a 3-entry object with a duplicate key; after every step the entries, the operation result and every key query are compared with the plain-list model; non-trivial = history of length >= 2".into();
    rep.checks.push(format!("{}: object histories vs the list model", prop));
    let mut by_content: std::collections::HashMap<Model, (Object, String)> = std::collections::HashMap::new();
    let seeds: Vec<Vec<Op>> = vec![vec![], vec![Op::Push(0, 0), Op::Push(1, 0), Op::Push(0, 1)]];
    for start in &seeds {
        let mut stack: Vec<Vec<Op>> = vec![vec![]];
        while let Some(h) = stack.pop() {
            // replay history
            let mut obj = Object::new(); let mut m: Model = vec![];
            let mut failed = None;
            for op in start.iter().chain(h.iter()) {
                let r = std::panic::catch_unwind(std::panic::AssertUnwindSafe(|| { let mut o2 = obj.clone(); let mut m2 = m.clone(); let e = apply(*op, &mut o2, &mut m2); (o2, m2, e) }));
                match r { Ok((o2, m2, e)) => { obj = o2; m = m2; if let Some(e) = e { failed = Some(e); break; } if let Some(e) = check_state(&obj, &m) { failed = Some(e); break; } }
                          Err(_) => { failed = Some("panic".into()); break; } }
            }
            rep.eval(h.len() >= 2, fnv(format!("{:?}{:?}", start, h).as_bytes()));
            if let Some(e) = failed {
                if prop == "C06" { rep.violation("object operations == list model", "history", format!("{:?} then {:?}", start, h), e); }
                continue;
            }
            if prop == "C14" {
                // same content reached through another history: equal, Equal, same hash
                match by_content.get(&m) {
                    Some((other, oh)) => {
                        if &obj != other || obj.cmp(other) != std::cmp::Ordering::Equal || hash_of(&obj) != hash_of(other) || obj.partial_cmp(other) != Some(std::cmp::Ordering::Equal) {
                            rep.violation("same entries through different histories: ==, Equal, same hash", "history-independence", format!("{:?}+{:?} vs {}", start, h, oh), format!("eq={} cmp={:?} hash_eq={}", &obj == other, obj.cmp(other), hash_of(&obj) == hash_of(other)));
                        }
                    }
                    None => { by_content.insert(m.clone(), (obj.clone(), format!("{:?}+{:?}", start, h))); }
                }
            }
            if h.len() < depth { for op in &ops { if h.len() + 1 == depth && !thorough && matches!(op, Op::Clone | Op::FromVec | Op::SetAll(..) | Op::SetUnique(..)) { continue; } let mut h2 = h.clone(); h2.push(*op); stack.push(h2); } }
        }
    }
    if prop == "C06" {
        rep.checks.push("C06: long random histories over 40 keys (hash index growth / rehash), extend / collect from iterators whose size_hint is not exact".into());
        let mut rng = Rng(seed.wrapping_mul(0x9E3779B97F4A7C15) | 1);
        let rounds = if thorough { 60 } else { 12 };
        for round in 0..rounds {
            let mut obj = Object::new();
            let mut m: Vec<(String, RefValue)> = vec![];
            let nkeys = [3usize, 9, 17, 40][round % 4];
            let steps = if thorough { 400 } else { 160 };
            let mut log: Vec<String> = vec![];
            for step in 0..steps {
                let k = format!("k{}", rng.below(nkeys));
                let v = RefValue::Num(step.to_string());
                match rng.below(10) {
                    0 | 1 | 2 => { obj.push(k.as_str().into(), to_real(&v)); m.push((k.clone(), v)); log.push(format!("push {}", k)); }
                    3 => { obj.push_front(k.as_str().into(), to_real(&v)); m.insert(0, (k.clone(), v)); log.push(format!("push_front {}", k)); }
                    4 => { if !m.is_empty() { let i = rng.below(m.len()); obj.remove_at(i); m.remove(i); log.push(format!("remove_at {}", i)); } }
                    5 => { let _ = obj.remove(k.as_str()).count(); m.retain(|(k2, _)| k2 != &k); log.push(format!("remove {}", k)); }
                    6 => { let first = m.iter().position(|(k2, _)| k2 == &k); let _ = obj.insert(k.as_str().into(), to_real(&v)).map(|r| r.count()); match first { Some(i) => { m[i].1 = v.clone(); let mut j = i + 1; while j < m.len() { if m[j].0 == k { m.remove(j); } else { j += 1; } } } None => m.push((k.clone(), v)) } log.push(format!("insert {}", k)); }
                    7 => { // extend from an iterator whose size_hint lower bound is 0 (filter) / inexact (chain of filters)
                        let extra: Vec<(String, RefValue)> = (0..rng.below(4)).map(|i| (format!("k{}", rng.below(nkeys)), RefValue::Num(format!("{}", 1000 + i)))).collect();
                        obj.extend(extra.iter().map(|(k, v)| (json_syntax::object::Key::from(k.as_str()), to_real(v))).filter(|_| true));
                        m.extend(extra.iter().cloned()); log.push(format!("extend(filter) {}", extra.len())); }
                    8 => { // rebuild through FromIterator<Entry> from a filtered iterator
                        let es: Vec<Entry> = obj.entries().to_vec();
                        obj = es.into_iter().filter(|_| true).collect::<Object>(); log.push("collect(filter)".into()); }
                    _ => { let es: Vec<Entry> = obj.entries().to_vec(); let mut o2 = Object::new(); o2.extend(es.into_iter().chain(Vec::<Entry>::new()).filter(|_| true)); obj = o2; log.push("extend<Entry>(chain+filter)".into()); }
                }
                rep.eval(step > 2, (round as u64) << 32 | step as u64);
                // full comparison with the list model every few steps and at the end
                if step % 7 == 0 || step + 1 == steps {
                    let entries: Vec<(String, RefValue)> = obj.entries().iter().map(entry_ref).collect();
                    let mut bad: Option<String> = None;
                    if entries != m { bad = Some("entries differ from the list model".into()); }
                    for q in 0..nkeys { let key = format!("k{}", q);
                        let idx: Vec<usize> = m.iter().enumerate().filter(|(_, (k2, _))| k2 == &key).map(|(i, _)| i).collect();
                        if obj.indexes_of(key.as_str()).collect::<Vec<_>>() != idx { bad = Some(format!("indexes_of({}) = {:?} expected {:?}", key, obj.indexes_of(key.as_str()).collect::<Vec<_>>(), idx)); break; }
                        if obj.contains_key(key.as_str()) != !idx.is_empty() { bad = Some(format!("contains_key({})", key)); break; }
                        if obj.get(key.as_str()).count() != idx.len() { bad = Some(format!("get({}) count", key)); break; }
                    }
                    if let Some(b) = bad { let tail: Vec<String> = log.iter().rev().take(12).rev().cloned().collect(); rep.violation("object operations == list model", "long-history", format!("{} keys, {} steps; last operations: {:?}", nkeys, step + 1, tail), b); break; }
                }
            }
        }
    }
    if prop == "C14" {
        rep.checks.push("C14: ordering is a total order consistent with equality (all pairs / triples of reached contents)".into());
        let objs: Vec<(Model, Object)> = by_content.iter().map(|(m, (o, _))| (m.clone(), o.clone())).take(if thorough { 120 } else { 60 }).collect();
        for (ma, a) in &objs { for (mb, b) in &objs {
            let c = a.cmp(b);
            rep.eval(true, fnv(format!("{:?}{:?}", ma, mb).as_bytes()));
            if (c == std::cmp::Ordering::Equal) != (a == b) || (a == b) != (ma == mb) || b.cmp(a) != c.reverse() || (a == b && hash_of(a) != hash_of(b)) {
                rep.violation("Ord consistent with Eq and antisymmetric", "order", format!("{:?} vs {:?}", ma, mb), format!("cmp={:?} eq={}", c, a == b));
            }
            let va = Value::Object(a.clone()); let vb = Value::Object(b.clone());
            if va.cmp(&vb) != c || (va == vb) != (a == b) { rep.violation("Value order/equality agree with Object's", "order-value", format!("{:?} vs {:?}", ma, mb), "".into()); }
        } }
        for (_, a) in objs.iter().take(25) { for (_, b) in objs.iter().take(25) { for (_, c) in objs.iter().take(25) {
            if a.cmp(b) != std::cmp::Ordering::Greater && b.cmp(c) != std::cmp::Ordering::Greater && a.cmp(c) == std::cmp::Ordering::Greater { rep.violation("Ord transitive", "order-trans", "triple".into(), "".into()); }
        } } }
    }
    if prop == "C14" {
        // values: every pair / triple of a family with near-copies (one leaf, one key, one position
        // changed) and numbers of equal value but different spelling (content = spelling)
        rep.checks.push("C14: Value order is total and consistent with equality; equal values hash alike (all pairs, triples)".into());
        let mut leaves: Vec<RefValue> = vec![RefValue::Null, RefValue::Bool(false), RefValue::Bool(true), RefValue::Str("".into()), RefValue::Str("a".into()), RefValue::Str("b".into())];
        for n in ["0", "-0", "1", "1.0", "10e-1", "100", "1e2", "2", "-1", "1.5", "15e-1", "9", "10", "5.5", "20", "-10", "-9"] { leaves.push(RefValue::Num(n.into())); }
        let mut vals = leaves.clone();
        for a in &leaves { vals.push(RefValue::Arr(vec![a.clone()])); vals.push(RefValue::Obj(vec![("k".into(), a.clone())])); }
        for a in leaves.iter().step_by(2) { for b in leaves.iter().step_by(3) {
            vals.push(RefValue::Arr(vec![a.clone(), b.clone()]));
            vals.push(RefValue::Obj(vec![("a".into(), a.clone()), ("b".into(), b.clone())]));
            vals.push(RefValue::Obj(vec![("b".into(), b.clone()), ("a".into(), a.clone())]));
            vals.push(RefValue::Arr(vec![RefValue::Bool(true), RefValue::Obj(vec![("a".into(), RefValue::Null), ("b".into(), b.clone())])]));
        } }
        vals.push(RefValue::Arr(vec![])); vals.push(RefValue::Obj(vec![]));
        let reals: Vec<Value> = vals.iter().map(to_real).collect();
        for (i, a) in reals.iter().enumerate() { for (j, b) in reals.iter().enumerate() {
            let c = a.cmp(b);
            rep.eval(i != j, (i * 100003 + j) as u64);
            let same = vals[i] == vals[j];
            if (a == b) != same { rep.violation("Value equality is equality of content (numbers by spelling)", "value-eq", format!("{:?} vs {:?}", vals[i], vals[j]), format!("eq={}", a == b)); }
            if (c == std::cmp::Ordering::Equal) != (a == b) || b.cmp(a) != c.reverse() || a.partial_cmp(b) != Some(c) { rep.violation("Value order consistent with equality and antisymmetric", "value-order", format!("{:?} vs {:?}", vals[i], vals[j]), format!("cmp={:?} rev={:?} eq={}", c, b.cmp(a), a == b)); }
            if a == b && hash_of(a) != hash_of(b) { rep.violation("equal values hash alike", "value-hash", format!("{:?} vs {:?}", vals[i], vals[j]), "".into()); }
            if a.clone() != *a { rep.violation("clones equal their originals", "value-clone", format!("{:?}", vals[i]), "".into()); }
        } }
        // every triple of leaves (orders that mix numeric and textual comparison of numbers are
        // typically pairwise lawful but cyclic), wrapped once as well
        let nl = leaves.len();
        for wrap in 0..3usize {
            let w = |x: &RefValue| -> Value { to_real(&match wrap { 0 => x.clone(), 1 => RefValue::Arr(vec![RefValue::Bool(true), x.clone()]), _ => RefValue::Obj(vec![("id".into(), x.clone())]) }) };
            let ws: Vec<Value> = leaves.iter().map(|x| w(x)).collect();
            for i in 0..nl { for j in 0..nl { for k in 0..nl {
                rep.eval(false, 0);
                if ws[i].cmp(&ws[j]) != std::cmp::Ordering::Greater && ws[j].cmp(&ws[k]) != std::cmp::Ordering::Greater && ws[i].cmp(&ws[k]) == std::cmp::Ordering::Greater {
                    rep.violation("Value order transitive", "value-trans-leaf", format!("{:?} <= {:?} <= {:?} (wrap {})", leaves[i], leaves[j], leaves[k], wrap), "but the first is greater than the third".into());
                }
            } } }
        }
        let step = if thorough { 1 } else { 3 };
        for a in reals.iter().step_by(step) { for b in reals.iter().step_by(step) { for c in reals.iter().step_by(step) {
            if a.cmp(b) != std::cmp::Ordering::Greater && b.cmp(c) != std::cmp::Ordering::Greater && a.cmp(c) == std::cmp::Ordering::Greater { rep.violation("Value order transitive", "value-trans", format!("{:?} <= {:?} <= {:?}", from_real(a), from_real(b), from_real(c)), "".into()); }
        } } }
    }
    let _ = seed;
    rep.sample("[push a 1, push b 1, push a 2] then insert(a,2) with the iterator dropped untouched".into());
    rep.sample("push_front a, push a, remove_at(0), index_of(a)".into());
}

// ---- C15 -------------------------------------------------------------------------------------------

/// equality up to permutation of object entries at any depth (multiset matching)
fn ref_unordered_eq(a: &RefValue, b: &RefValue) -> bool {
    match (a, b) {
        (RefValue::Arr(x), RefValue::Arr(y)) => x.len() == y.len() && x.iter().zip(y).all(|(p, q)| ref_unordered_eq(p, q)),
        (RefValue::Obj(x), RefValue::Obj(y)) => {
            if x.len() != y.len() { return false; }
            let mut used = vec![false; y.len()];
            for (k, v) in x {
                let mut found = false;
                for (j, (k2, v2)) in y.iter().enumerate() { if !used[j] && k == k2 && ref_unordered_eq(v, v2) { used[j] = true; found = true; break; } }
                if !found { return false; }
            }
            true
        }
        (p, q) => p == q,
    }
}

fn small_objects(max_len: usize, inner: &[RefValue]) -> Vec<RefValue> {
    let mut out = vec![RefValue::Obj(vec![])];
    let keys = ["k", "j"];
    let mut cur: Vec<Vec<(String, RefValue)>> = vec![vec![]];
    for _ in 0..max_len {
        let mut next = vec![];
        for base in &cur { for k in keys { for v in inner { let mut e = base.clone(); e.push((k.to_string(), v.clone())); next.push(e); } } }
        for e in &next { out.push(RefValue::Obj(e.clone())); }
        cur = next;
    }
    out
}

fn unordered(thorough: bool, _seed: u64, rep: &mut Report) {
    rep.checks.push("C15: unordered_eq == equality up to permutation of object entries (multiset matching), all pairs".into());
    rep.rule = "all pairs of objects with at most N entries over 2 keys and 2-3 values, the same one level down (objects in arrays, objects as values); compared with the multiset definition; also reflexive/symmetric and implied by ==".into();
    let scal = vec![RefValue::Num("1".into()), RefValue::Num("2".into())];
    let lvl1 = small_objects(if thorough { 4 } else { 3 }, &scal);
    rep.bounds = vec![("entries".into(), (if thorough { 4 } else { 3 }).to_string()), ("objects_level1".into(), lvl1.len().to_string())];
    let mut pool: Vec<RefValue> = lvl1.clone();
    // nested: objects whose values are small objects / arrays of objects
    let inner: Vec<RefValue> = vec![lvl1[1].clone(), lvl1[3].clone(), RefValue::Obj(vec![("k".into(), scal[0].clone()), ("j".into(), scal[1].clone())]), RefValue::Obj(vec![("j".into(), scal[1].clone()), ("k".into(), scal[0].clone())]), RefValue::Arr(vec![lvl1[1].clone(), lvl1[2].clone()])];
    pool.extend(small_objects(2, &inner));
    for x in &inner { pool.push(RefValue::Arr(vec![x.clone(), scal[0].clone()])); }
    let reals: Vec<Value> = pool.iter().map(to_real).collect();
    for (i, a) in pool.iter().enumerate() { for (j, b) in pool.iter().enumerate() {
        let want = ref_unordered_eq(a, b);
        let got = reals[i].as_unordered() == reals[j].as_unordered();
        rep.eval(i != j, (i as u64) << 32 | j as u64);
        if got != want { rep.violation("unordered_eq == multiset equality", "pair", format!("{:?} ~ {:?}", a, b), format!("real={} reference={}", got, want)); }
        if (reals[i] == reals[j]) && !got { rep.violation("== implies unordered_eq", "implied", format!("{:?}", a), "".into()); }
    } }
    // arrays: same length and pairwise unordered-equal (a prefix is not equal)
    rep.checks.push("C15: arrays of different lengths, nested".into());
    { let one = RefValue::Num("1".into()); let two = RefValue::Num("2".into());
      let oa = RefValue::Obj(vec![("u".into(), one.clone()), ("v".into(), two.clone())]); let ob = RefValue::Obj(vec![("v".into(), two.clone()), ("u".into(), one.clone())]);
      let arrs = vec![RefValue::Arr(vec![]), RefValue::Arr(vec![one.clone()]), RefValue::Arr(vec![one.clone(), two.clone()]), RefValue::Arr(vec![one.clone(), two.clone(), one.clone()]), RefValue::Arr(vec![oa.clone()]), RefValue::Arr(vec![ob.clone(), one.clone()]), RefValue::Arr(vec![oa.clone(), one.clone()]), RefValue::Arr(vec![ob.clone()])];
      // the same items in another order: arrays stay ordered, so these differ unless the items coincide
      let mut arrs = arrs;
      arrs.extend(vec![RefValue::Arr(vec![two.clone(), one.clone()]), RefValue::Arr(vec![one.clone(), one.clone(), two.clone()]), RefValue::Arr(vec![two.clone(), one.clone(), one.clone()]),
          RefValue::Arr(vec![oa.clone(), one.clone()]), RefValue::Arr(vec![one.clone(), ob.clone()]), RefValue::Arr(vec![one.clone(), oa.clone()]), RefValue::Arr(vec![one.clone(), one.clone()])]);
      let mut apool = arrs.clone();
      for a in &arrs { apool.push(RefValue::Obj(vec![("k".into(), a.clone()), ("n".into(), one.clone())])); apool.push(RefValue::Obj(vec![("n".into(), one.clone()), ("k".into(), a.clone())])); apool.push(RefValue::Arr(vec![a.clone()])); }
      let areals: Vec<Value> = apool.iter().map(to_real).collect();
      for (i, a) in apool.iter().enumerate() { for (j, b) in apool.iter().enumerate() {
          let want = ref_unordered_eq(a, b);
          let got = areals[i].as_unordered() == areals[j].as_unordered();
          rep.eval(i != j, 0x7000_0000_0000 | (i as u64) << 16 | j as u64);
          if got != want { rep.violation("unordered_eq == multiset equality", "array-pair", format!("{:?} ~ {:?}", a, b), format!("real={} reference={}", got, want)); }
      } } }
    // leaves: numbers are compared by spelling (1.5 is not 1.50), strings exactly, literals
    rep.checks.push("C15: leaves compare by content (number spelling, string text) under unordered_eq".into());
    let leaves: Vec<RefValue> = ["1", "1.0", "1.5", "1.50", "15e-1", "100", "1e2", "0", "-0", "0.0"].iter().map(|n| RefValue::Num(n.to_string())).chain(vec![RefValue::Str("a".into()), RefValue::Str("a ".into()), RefValue::Null, RefValue::Bool(true), RefValue::Bool(false)]).collect();
    let mut lpool: Vec<RefValue> = leaves.clone();
    for a in &leaves { lpool.push(RefValue::Arr(vec![a.clone()])); lpool.push(RefValue::Obj(vec![("a".into(), a.clone()), ("b".into(), RefValue::Num("2".into()))])); lpool.push(RefValue::Obj(vec![("b".into(), RefValue::Num("2".into())), ("a".into(), a.clone())])); }
    let lreals: Vec<Value> = lpool.iter().map(to_real).collect();
    for (i, a) in lpool.iter().enumerate() { for (j, b) in lpool.iter().enumerate() {
        let want = ref_unordered_eq(a, b);
        let got = lreals[i].as_unordered() == lreals[j].as_unordered();
        rep.eval(i != j, 0x5000_0000_0000 | (i as u64) << 16 | j as u64);
        if got != want { rep.violation("unordered_eq == multiset equality", "leaf-pair", format!("{:?} ~ {:?}", a, b), format!("real={} reference={}", got, want)); }
    } }
    // sizes around machine-word boundaries (a bitmap of matched entries is a natural implementation)
    rep.checks.push("C15: large objects (31..129 entries) against their shuffles, clones and one-entry edits".into());
    for n in [1usize, 7, 8, 9, 15, 16, 17, 31, 32, 33, 63, 64, 65, 127, 128, 129] {
        let es: Vec<(String, RefValue)> = (0..n).map(|i| (format!("k{}", i % (n / 2 + 1)), RefValue::Num((i % 5).to_string()))).collect();
        let a = RefValue::Obj(es.clone());
        let mut rev = es.clone(); rev.reverse();
        let mut rot = es.clone(); rot.rotate_left(n / 3);
        let mut edit = es.clone(); let last = edit.len() - 1; edit[last].1 = RefValue::Num("9".into());
        let mut dup = es.clone(); dup[0] = dup[last].clone();
        for (what, b) in [("clone", a.clone()), ("reversed", RefValue::Obj(rev)), ("rotated", RefValue::Obj(rot)), ("one value changed", RefValue::Obj(edit)), ("one entry duplicated over another", RefValue::Obj(dup))] {
            let want = ref_unordered_eq(&a, &b);
            let (ra, rb) = (to_real(&a), to_real(&b));
            let got = std::panic::catch_unwind(std::panic::AssertUnwindSafe(|| ra.as_unordered() == rb.as_unordered()));
            rep.eval(true, 0x6000_0000_0000 | (n as u64) << 8 | what.len() as u64);
            match got {
                Ok(g) => if g != want { rep.violation("unordered_eq == multiset equality", "large", format!("{} entries vs {}", n, what), format!("real={} reference={}", g, want)); },
                Err(_) => rep.violation("unordered_eq panics", "large-panic", format!("{} entries vs {}", n, what), "panic".into()),
            }
        }
    }
    // random nested values (duplicate keys, objects under arrays under objects): every shuffle of the
    // entries at every depth must be unordered-equal, a single-leaf mutation must be told apart --
    // judged by a SECOND oracle, the recursively sorted normal form, which must also agree with the
    // matching-based one
    rep.checks.push("C15: random nested values vs deep shuffles, single-leaf mutations and rotations of array items (normal-form oracle)".into());
    let mut rng = crate::Rng(_seed.wrapping_mul(0x9E3779B97F4A7C15) | 1);
    fn gen(rng: &mut crate::Rng, depth: usize) -> RefValue {
        let keys = ["a", "b", "c", "\u{e9}"];
        match rng.below(if depth == 0 { 4 } else { 7 }) {
            0 => RefValue::Null, 1 => RefValue::Bool(rng.below(2) == 0), 2 => RefValue::Num(["0", "1", "1.0", "-2e3"][rng.below(4)].to_string()), 3 => RefValue::Str(["", "x", "y"][rng.below(3)].to_string()),
            4 => RefValue::Arr((0..rng.below(4)).map(|_| gen(rng, depth - 1)).collect()),
            _ => RefValue::Obj((0..rng.below(6)).map(|_| (keys[rng.below(keys.len())].to_string(), gen(rng, depth - 1))).collect()),
        }
    }
    fn nf(v: &RefValue) -> String {
        match v {
            RefValue::Arr(a) => format!("[{}]", a.iter().map(nf).collect::<Vec<_>>().join(",")),
            RefValue::Obj(es) => { let mut parts: Vec<String> = es.iter().map(|(k, x)| format!("{:?}:{}", k, nf(x))).collect(); parts.sort(); format!("{{{}}}", parts.join(",")) }
            other => format!("{:?}", other),
        }
    }
    fn deep_shuffle(v: &RefValue, rng: &mut crate::Rng) -> RefValue {
        match v {
            RefValue::Obj(es) => { let mut es: Vec<(String, RefValue)> = es.iter().map(|(k, x)| (k.clone(), deep_shuffle(x, rng))).collect(); for i in (1..es.len()).rev() { let j = rng.below(i + 1); es.swap(i, j); } RefValue::Obj(es) }
            RefValue::Arr(a) => RefValue::Arr(a.iter().map(|x| deep_shuffle(x, rng)).collect()),
            o => o.clone(),
        }
    }
    fn n_leaves(v: &RefValue) -> usize { match v { RefValue::Arr(a) => a.iter().map(n_leaves).sum(), RefValue::Obj(es) => es.iter().map(|(_, x)| n_leaves(x)).sum(), _ => 1 } }
    fn mutate(v: &RefValue, which: &mut usize) -> RefValue {
        match v {
            RefValue::Arr(a) => RefValue::Arr(a.iter().map(|x| mutate(x, which)).collect()),
            RefValue::Obj(es) => RefValue::Obj(es.iter().map(|(k, x)| (k.clone(), mutate(x, which))).collect()),
            leaf => { if *which == 0 { *which = usize::MAX; match leaf { RefValue::Null => RefValue::Bool(false), RefValue::Bool(b) => RefValue::Bool(!b), RefValue::Num(n) => RefValue::Num(if n == "7" { "8".into() } else { "7".into() }), _ => RefValue::Str("mutated".into()) } } else { if *which != usize::MAX { *which -= 1; } leaf.clone() } }
        }
    }
    for it in 0..(if thorough { 20_000 } else { 3_000 }) {
        let a = gen(&mut rng, 3);
        let b = deep_shuffle(&a, &mut rng);
        let n = n_leaves(&a);
        let c = if n > 0 { let mut w = rng.below(n); mutate(&b, &mut w) } else { b.clone() };
        // arrays stay ordered: rotating the items of every array (at every depth) by one changes the value
        // unless the rotation happens to give the same items again -- the normal form decides
        fn rotate_arrays(v: &RefValue) -> RefValue {
            match v {
                RefValue::Arr(a) => { let mut items: Vec<RefValue> = a.iter().map(rotate_arrays).collect(); if items.len() > 1 { items.rotate_left(1); } RefValue::Arr(items) }
                RefValue::Obj(es) => RefValue::Obj(es.iter().map(|(k, x)| (k.clone(), rotate_arrays(x))).collect()),
                o => o.clone(),
            }
        }
        let d = rotate_arrays(&b);
        for (what, x, y) in [("deep shuffle", &a, &b), ("single-leaf mutation of a shuffle", &a, &c), ("mutation vs its source shuffle", &c, &b), ("array items rotated", &a, &d)] {
            let want = nf(x) == nf(y);
            if want != ref_unordered_eq(x, y) { rep.violation("(reference self-check) the two oracles agree", "oracle", format!("{:?} ~ {:?}", x, y), format!("normal form says {}", want)); }
            let (rx, ry) = (to_real(x), to_real(y));
            let got = rx.as_unordered() == ry.as_unordered();
            let got_rev = ry.as_unordered() == rx.as_unordered();
            rep.eval(true, 0x7000_0000_0000 | it as u64);
            if got != want || got_rev != want { rep.violation("unordered_eq == multiset equality", "random-nested", format!("{} : {:?} ~ {:?}", what, x, y), format!("real={} reversed={} reference={}", got, got_rev, want)); }
        }
    }
    rep.sample("{k:1,k:1,k:2} vs {k:1,k:2,k:2}".into());
}
