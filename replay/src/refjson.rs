//! Reference model, written from RFC 8259 / RFC 8785 and the property statements only.
#![allow(dead_code)]

#[derive(Clone, Debug, PartialEq, Eq, PartialOrd, Ord, Hash)]
pub enum RefValue {
    Null,
    Bool(bool),
    Num(String),
    Str(String),
    Arr(Vec<RefValue>),
    Obj(Vec<(String, RefValue)>),
}

#[derive(Clone, Copy, Debug, PartialEq, Eq)]
pub struct RefFrag { pub start: usize, pub end: usize, pub volume: usize }

#[derive(Clone, Debug, PartialEq, Eq)]
pub enum RefErr {
    Unexpected(usize, Option<char>),
    /// unpaired high surrogate: byte offset of the backslash of its escape, the unit
    MissingLow { esc_start: usize, high: u16 },
    /// high surrogate followed by a \u escape that is not a low surrogate
    InvalidLow { first_esc_start: usize, second_esc_end: usize, high: u16, unit: u32 },
    /// lone low surrogate
    InvalidCodePoint { esc_start: usize, unit: u32 },
}

#[derive(Clone, Copy, Debug, PartialEq, Eq)]
pub struct RefOpts { pub trunc: bool, pub invalid: bool }

pub struct P<'a> { s: &'a [char], i: usize, pos: usize, opts: RefOpts, map: Vec<RefFrag> }

fn is_ws(c: char) -> bool { c == ' ' || c == '\t' || c == '\n' || c == '\r' }

impl<'a> P<'a> {
    fn peek(&self) -> Option<char> { self.s.get(self.i).copied() }
    fn bump(&mut self) -> Option<char> { let c = self.peek(); if let Some(c) = c { self.i += 1; self.pos += c.len_utf8(); } c }
    fn ws(&mut self) { while let Some(c) = self.peek() { if is_ws(c) { self.bump(); } else { break } } }
    fn unexpected<T>(&self) -> Result<T, RefErr> { Err(RefErr::Unexpected(self.pos, self.peek())) }
    fn begin(&mut self) -> usize { self.map.push(RefFrag { start: self.pos, end: self.pos, volume: 0 }); self.map.len() - 1 }
    fn end(&mut self, i: usize) { let n = self.map.len(); self.map[i].end = self.pos; self.map[i].volume = n - i; }

    fn literal(&mut self, lit: &str) -> Result<(), RefErr> {
        for want in lit.chars() { if self.peek() == Some(want) { self.bump(); } else { return self.unexpected(); } }
        Ok(())
    }

    fn number(&mut self) -> Result<String, RefErr> {
        // number = [ minus ] int [ frac ] [ exp ]
        let mut out = String::new();
        if self.peek() == Some('-') { out.push('-'); self.bump(); }
        match self.peek() {
            Some('0') => { out.push('0'); self.bump(); }
            Some(c @ '1'..='9') => { out.push(c); self.bump(); while let Some(d @ '0'..='9') = self.peek() { out.push(d); self.bump(); } }
            _ => return self.unexpected(),
        }
        if self.peek() == Some('.') {
            out.push('.'); self.bump();
            match self.peek() { Some(d @ '0'..='9') => { out.push(d); self.bump(); } _ => return self.unexpected() }
            while let Some(d @ '0'..='9') = self.peek() { out.push(d); self.bump(); }
        }
        if let Some(e @ ('e' | 'E')) = self.peek() {
            out.push(e); self.bump();
            if let Some(sg @ ('+' | '-')) = self.peek() { out.push(sg); self.bump(); }
            match self.peek() { Some(d @ '0'..='9') => { out.push(d); self.bump(); } _ => return self.unexpected() }
            while let Some(d @ '0'..='9') = self.peek() { out.push(d); self.bump(); }
        }
        Ok(out)
    }

    fn hex4(&mut self) -> Result<u32, RefErr> {
        let mut v = 0u32;
        for _ in 0..4 {
            match self.peek().and_then(|c| c.to_digit(16)) { Some(h) => { v = v * 16 + h; self.bump(); } None => return self.unexpected() }
        }
        Ok(v)
    }

    fn string(&mut self) -> Result<String, RefErr> {
        if self.peek() != Some('"') { return self.unexpected(); }
        self.bump();
        let mut out = String::new();
        // pending unpaired-so-far high surrogate: (byte offset of its backslash, byte offset after its escape, unit)
        let mut pend: Option<(usize, usize, u32)> = None;
        loop {
            let elem_start = self.pos;
            // one element: closing quote / raw char / simple escape / \uXXXX unit
            enum El { Close, Ch(char), Unit(u32) }
            let el = match self.peek() {
                None => return self.unexpected(),
                Some('"') => { self.bump(); El::Close }
                Some('\\') => {
                    self.bump();
                    match self.peek() {
                        Some('"') => { self.bump(); El::Ch('"') } Some('\\') => { self.bump(); El::Ch('\\') } Some('/') => { self.bump(); El::Ch('/') }
                        Some('b') => { self.bump(); El::Ch('\u{8}') } Some('f') => { self.bump(); El::Ch('\u{c}') } Some('n') => { self.bump(); El::Ch('\n') }
                        Some('r') => { self.bump(); El::Ch('\r') } Some('t') => { self.bump(); El::Ch('\t') }
                        Some('u') => { self.bump(); El::Unit(self.hex4()?) }
                        _ => return self.unexpected(),
                    }
                }
                Some(c) if (c as u32) < 0x20 => return self.unexpected(),
                Some(c) => { self.bump(); El::Ch(c) }
            };
            match el {
                El::Close => {
                    if let Some((b, _e, h)) = pend { if self.opts.trunc { out.push('\u{fffd}'); } else { return Err(RefErr::MissingLow { esc_start: b, high: h as u16 }); } }
                    return Ok(out);
                }
                El::Ch(c) => {
                    if let Some((b, _e, h)) = pend.take() { if self.opts.trunc { out.push('\u{fffd}'); } else { return Err(RefErr::MissingLow { esc_start: b, high: h as u16 }); } }
                    out.push(c);
                }
                El::Unit(x) => {
                    let is_high = (0xD800..=0xDBFF).contains(&x);
                    let is_low = (0xDC00..=0xDFFF).contains(&x);
                    if let Some((b, _e, h)) = pend.take() {
                        if is_low { out.push(char::from_u32(0x10000 + (h - 0xD800) * 0x400 + (x - 0xDC00)).unwrap()); continue; }
                        if !self.opts.trunc { return Err(RefErr::InvalidLow { first_esc_start: b, second_esc_end: self.pos, high: h as u16, unit: x }); }
                        out.push('\u{fffd}');
                    }
                    if is_high { pend = Some((elem_start, self.pos, x)); }
                    else if is_low { if self.opts.invalid { out.push('\u{fffd}'); } else { return Err(RefErr::InvalidCodePoint { esc_start: elem_start, unit: x }); } }
                    else { out.push(char::from_u32(x).unwrap()); }
                }
            }
        }
    }

    fn value(&mut self) -> Result<RefValue, RefErr> {
        // iterative would be needed for deep nesting; the bounded checks stay shallow
        let i = self.begin();
        let v = match self.peek() {
            Some('n') => { self.literal("null")?; RefValue::Null }
            Some('t') => { self.literal("true")?; RefValue::Bool(true) }
            Some('f') => { self.literal("false")?; RefValue::Bool(false) }
            Some('-') | Some('0'..='9') => RefValue::Num(self.number()?),
            Some('"') => RefValue::Str(self.string()?),
            Some('[') => {
                self.bump(); self.ws();
                let mut items = Vec::new();
                if self.peek() == Some(']') { self.bump(); } else {
                    loop {
                        self.ws(); items.push(self.value()?); self.ws();
                        match self.peek() { Some(',') => { self.bump(); } Some(']') => { self.bump(); break } _ => return self.unexpected() }
                    }
                }
                RefValue::Arr(items)
            }
            Some('{') => {
                self.bump(); self.ws();
                let mut es = Vec::new();
                if self.peek() == Some('}') { self.bump(); } else {
                    loop {
                        self.ws();
                        let e = self.begin();
                        let k = self.begin();
                        let key = self.string()?;
                        self.end(k);
                        self.ws();
                        if self.peek() == Some(':') { self.bump(); } else { return self.unexpected(); }
                        self.ws();
                        let v = self.value()?;
                        self.end(e);
                        es.push((key, v));
                        self.ws();
                        match self.peek() { Some(',') => { self.bump(); } Some('}') => { self.bump(); break } _ => return self.unexpected() }
                    }
                }
                RefValue::Obj(es)
            }
            _ => return self.unexpected(),
        };
        self.end(i);
        Ok(v)
    }
}

/// one JSON text: ws value ws
pub fn ref_parse(text: &[char], opts: RefOpts) -> Result<(RefValue, Vec<RefFrag>), RefErr> {
    let mut p = P { s: text, i: 0, pos: 0, opts, map: Vec::new() };
    p.ws();
    let v = p.value()?;
    p.ws();
    if p.peek().is_some() { return p.unexpected(); }
    Ok((v, p.map))
}

// ---- RFC 8785 string serialization and the compact form ----------------------------------------

pub fn ref_escape(s: &str, out: &mut String) {
    out.push('"');
    for c in s.chars() {
        match c {
            '"' => out.push_str("\\\""), '\\' => out.push_str("\\\\"),
            '\u{8}' => out.push_str("\\b"), '\u{9}' => out.push_str("\\t"), '\u{a}' => out.push_str("\\n"),
            '\u{c}' => out.push_str("\\f"), '\u{d}' => out.push_str("\\r"),
            c if (c as u32) < 0x20 => { out.push_str(&format!("\\u{:04x}", c as u32)); }
            c => out.push(c),
        }
    }
    out.push('"');
}

pub fn ref_compact(v: &RefValue, out: &mut String) {
    match v {
        RefValue::Null => out.push_str("null"),
        RefValue::Bool(b) => out.push_str(if *b { "true" } else { "false" }),
        RefValue::Num(n) => out.push_str(n),
        RefValue::Str(s) => ref_escape(s, out),
        RefValue::Arr(a) => { out.push('['); for (i, x) in a.iter().enumerate() { if i > 0 { out.push(','); } ref_compact(x, out); } out.push(']'); }
        RefValue::Obj(o) => { out.push('{'); for (i, (k, x)) in o.iter().enumerate() { if i > 0 { out.push(','); } ref_escape(k, out); out.push(':'); ref_compact(x, out); } out.push('}'); }
    }
}

// ---- the documented layout (print::Options doc comments) ------------------------------------------

#[derive(Clone, Copy, Debug, PartialEq, Eq)]
pub enum RefLimit { Always, Item(usize), Width(usize), ItemOrWidth(usize, usize) }

#[derive(Clone, Debug, PartialEq, Eq)]
pub struct RefPrint {
    pub indent_char: char, pub indent_n: usize,
    pub a_begin: usize, pub a_end: usize, pub a_empty: usize, pub a_bc: usize, pub a_ac: usize, pub a_limit: Option<RefLimit>,
    pub o_begin: usize, pub o_end: usize, pub o_empty: usize, pub o_bc: usize, pub o_ac: usize, pub o_bcolon: usize, pub o_acolon: usize, pub o_limit: Option<RefLimit>,
}

fn spaces(n: usize, out: &mut String) { for _ in 0..n { out.push(' '); } }

fn escaped_len(s: &str) -> usize { let mut t = String::new(); ref_escape(s, &mut t); t.chars().count() }

/// one-line width (number of characters printed) or None when the value is expanded
pub fn ref_width(v: &RefValue, o: &RefPrint) -> Option<usize> {
    match v {
        RefValue::Null => Some(4), RefValue::Bool(b) => Some(if *b { 4 } else { 5 }),
        RefValue::Num(n) => Some(n.chars().count()), RefValue::Str(s) => Some(escaped_len(s)),
        RefValue::Arr(a) => {
            let mut w = if a.is_empty() { 2 + o.a_empty } else { 2 + o.a_begin + o.a_end + (a.len() - 1) * (1 + o.a_bc + o.a_ac) };
            for x in a { w += ref_width(x, o)?; }
            limit(o.a_limit, a.len(), w)
        }
        RefValue::Obj(es) => {
            let mut w = if es.is_empty() { 2 + o.o_empty } else { 2 + o.o_begin + o.o_end + (es.len() - 1) * (1 + o.o_bc + o.o_ac) };
            for (k, x) in es { w += escaped_len(k) + 1 + o.o_bcolon + o.o_acolon + ref_width(x, o)?; }
            limit(o.o_limit, es.len(), w)
        }
    }
}

fn limit(l: Option<RefLimit>, n: usize, w: usize) -> Option<usize> {
    match l {
        None => Some(w), Some(RefLimit::Always) => None,
        Some(RefLimit::Item(i)) => if n > i { None } else { Some(w) },
        Some(RefLimit::Width(m)) => if w > m { None } else { Some(w) },
        Some(RefLimit::ItemOrWidth(i, m)) => if n > i || w > m { None } else { Some(w) },
    }
}

fn indent(o: &RefPrint, depth: usize, out: &mut String) { for _ in 0..depth * o.indent_n { out.push(o.indent_char); } }

pub fn ref_layout(v: &RefValue, o: &RefPrint, depth: usize, out: &mut String) {
    match v {
        RefValue::Arr(a) => {
            let inline = ref_width(v, o).is_some();
            out.push('[');
            if a.is_empty() { if inline { spaces(o.a_empty, out); } else { out.push('\n'); indent(o, depth, out); } }
            else if inline {
                spaces(o.a_begin, out);
                for (i, x) in a.iter().enumerate() { if i > 0 { spaces(o.a_bc, out); out.push(','); spaces(o.a_ac, out); } ref_layout(x, o, depth + 1, out); }
                spaces(o.a_end, out);
            } else {
                out.push('\n');
                for (i, x) in a.iter().enumerate() { if i > 0 { spaces(o.a_bc, out); out.push_str(",\n"); } indent(o, depth + 1, out); ref_layout(x, o, depth + 1, out); }
                out.push('\n'); indent(o, depth, out);
            }
            out.push(']');
        }
        RefValue::Obj(es) => {
            let inline = ref_width(v, o).is_some();
            out.push('{');
            if es.is_empty() { if inline { spaces(o.o_empty, out); } else { out.push('\n'); indent(o, depth, out); } }
            else {
                if inline { spaces(o.o_begin, out); } else { out.push('\n'); }
                for (i, (k, x)) in es.iter().enumerate() {
                    if i > 0 { spaces(o.o_bc, out); if inline { out.push(','); spaces(o.o_ac, out); } else { out.push_str(",\n"); } }
                    if !inline { indent(o, depth + 1, out); }
                    ref_escape(k, out); spaces(o.o_bcolon, out); out.push(':'); spaces(o.o_acolon, out);
                    ref_layout(x, o, depth + 1, out);
                }
                if inline { spaces(o.o_end, out); } else { out.push('\n'); indent(o, depth, out); }
            }
            out.push('}');
        }
        scalar => ref_compact(scalar, out),
    }
}
