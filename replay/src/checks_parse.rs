//! Bounded stand-ins for the parser family (C01 C02 C03 C05 C07 C12): the real parser against the
//! reference parser of refjson.rs on every string up to a length bound over several alphabets.
use crate::refjson::*;
use crate::{fnv, from_real, Report, Rng};
use json_syntax::parse::{Error, Options};
use json_syntax::{Parse, Value};

fn opts_real(o: RefOpts) -> Options { Options { accept_truncated_surrogate_pair: o.trunc, accept_invalid_codepoints: o.invalid } }

const ALL_OPTS: [RefOpts; 4] = [
    RefOpts { trunc: false, invalid: false }, RefOpts { trunc: true, invalid: false },
    RefOpts { trunc: false, invalid: true }, RefOpts { trunc: true, invalid: true },
];

/// every string of at most `max` pieces over `alphabet`
fn for_each(alphabet: &[&str], max: usize, mut f: impl FnMut(&str)) {
    let mut idx: Vec<usize> = vec![];
    let mut s = String::new();
    loop {
        s.clear();
        for &i in &idx { s.push_str(alphabet[i]); }
        f(&s);
        // increment odometer
        let mut k = idx.len();
        loop {
            if k == 0 { if idx.len() == max { return; } idx = vec![0; idx.len() + 1]; break; }
            k -= 1;
            if idx[k] + 1 < alphabet.len() { idx[k] += 1; for j in k + 1..idx.len() { idx[j] = 0; } break; }
        }
    }
}

fn err_matches(real: &Error, r: &RefErr) -> bool {
    match (real, r) {
        (Error::Unexpected(p, c), RefErr::Unexpected(q, d)) => p == q && c == d,
        // surrogate errors: the offending code units, and a span lying inside the offending escape(s)
        (Error::MissingLowSurrogate(span, h), RefErr::MissingLow { esc_start, high }) =>
            h == high && *esc_start <= span.start() && span.start() <= span.end() && span.end() <= esc_start + 6,
        (Error::InvalidLowSurrogate(span, h, u), RefErr::InvalidLow { first_esc_start, second_esc_end, high, unit }) =>
            h == high && u == unit && *first_esc_start <= span.start() && span.start() <= span.end() && span.end() <= *second_esc_end,
        (Error::InvalidUnicodeCodePoint(span, u), RefErr::InvalidCodePoint { esc_start, unit }) =>
            u == unit && *esc_start <= span.start() && span.start() <= span.end() && span.end() <= esc_start + 6,
        _ => false,
    }
}

fn check_text(prop: &str, text: &str, rep: &mut Report) {
    let chars: Vec<char> = text.chars().collect();
    // (C02: the decoded value is the document's content under every option record as well --
    // the lenient options only concern surrogate escapes)
    let opt_list: &[RefOpts] = if prop == "C12" || prop == "C03" || prop == "C02" { &ALL_OPTS } else { &ALL_OPTS[..1] };
    let strict_ref = ref_parse(&chars, ALL_OPTS[0]);
    for &o in opt_list {
        let r = ref_parse(&chars, o);
        let real = std::panic::catch_unwind(|| Value::parse_str_with(text, opts_real(o)));
        let real = match real { Ok(x) => x, Err(_) => { rep.violation("parser panics", "panic", format!("{:?} opts={:?}", text, o), "parse_str_with panicked".into()); continue } };
        rep.eval(r.is_ok() || text.len() > 1, fnv(text.as_bytes()) ^ (o.trunc as u64) << 1 ^ (o.invalid as u64));
        // the byte-slice entry point on the same (well-formed) text must do exactly the same:
        // verdict, value, code map, error
        if !text.is_ascii() || text.len() <= 12 {
            if let Ok(bs) = std::panic::catch_unwind(|| Value::parse_slice_with(text.as_bytes(), opts_real(o))) {
                let same = match (&real, &bs) {
                    (Ok((v1, c1)), Ok((v2, c2))) => v1 == v2 && c1.iter().map(|(_, e)| (e.span.start(), e.span.end(), e.volume)).collect::<Vec<_>>() == c2.iter().map(|(_, e)| (e.span.start(), e.span.end(), e.volume)).collect::<Vec<_>>(),
                    (Err(e1), Err(e2)) => format!("{:?}", e1) == format!("{:?}", e2),
                    _ => false,
                };
                if !same && matches!(prop, "C01" | "C02" | "C05" | "C07" | "C12") {
                    let relevant = match prop { "C01" => real.is_ok() != bs.is_ok(), "C02" => real.is_ok() && bs.is_ok() && real.as_ref().unwrap().0 != bs.as_ref().unwrap().0, "C05" => real.is_ok() && bs.is_ok() && real.as_ref().unwrap().0 == bs.as_ref().unwrap().0, "C07" => real.is_err() && bs.is_err(), _ => true };
                    if relevant { rep.violation("byte-slice entry point == string entry point on well-formed UTF-8", "bytes-vs-str", format!("{:?} opts={:?}", text, o), format!("parse_str_with={:?} parse_slice_with={:?}", real.as_ref().map(|x| from_real(&x.0)).map_err(|e| format!("{:?}", e)), bs.as_ref().map(|x| from_real(&x.0)).map_err(|e| format!("{:?}", e)))); }
                }
            } else { rep.violation("parser panics", "panic-bytes", format!("{:?} opts={:?}", text, o), "parse_slice_with panicked".into()); }
        }
        // the infallible entry points on the same text, same option record: same verdict and value
        if matches!(prop, "C01" | "C02" | "C12") && (text.len() <= 24 || text.contains("\\u")) {
            let same_as_real = |x: &Result<(Value, json_syntax::CodeMap), json_syntax::parse::Error>| match (&real, x) { (Ok((v1, _)), Ok((v2, _))) => v1 == v2, (Err(_), Err(_)) => true, _ => false };
            let i1 = std::panic::catch_unwind(|| Value::parse_utf8_infallible_with(text.chars(), opts_real(o)));
            let i2 = std::panic::catch_unwind(|| Value::parse_infallible_with(text.chars().map(decoded_char::DecodedChar::from_utf8), opts_real(o)));
            for (name, res) in [("parse_utf8_infallible_with", i1), ("parse_infallible_with", i2)] {
                match res {
                    Ok(x) => if !same_as_real(&x) { rep.violation("infallible entry point == string entry point under the same options", "infallible-vs-str", format!("{:?} opts={:?} via {}", text, o, name), format!("parse_str_with ok={} {} ok={}", real.is_ok(), name, x.is_ok())); },
                    Err(_) => rep.violation("parser panics", "panic-infallible", format!("{:?} opts={:?}", text, o), format!("{} panicked", name)),
                }
            }
        }
        let verdict_ok = real.is_ok() == r.is_ok();
        match prop {
            "C03" => {
                // totality only: no panic (caught above), and the stream is pulled at most once per
                // character plus the end-of-input probe(s)
                let pulls = std::cell::Cell::new(0usize);
                let it = text.chars().map(|c| { pulls.set(pulls.get() + 1); Ok::<_, std::convert::Infallible>(decoded_char::DecodedChar::from_utf8(c)) });
                let _ = std::panic::catch_unwind(std::panic::AssertUnwindSafe(|| Value::parse_with(it, opts_real(o))));
                if pulls.get() > chars.len() { rep.violation("each input character is pulled at most once", "pulls", format!("{:?} opts={:?}", text, o), format!("{} characters pulled from a stream of {}", pulls.get(), chars.len())); }
            }
            "C01" => {
                if !verdict_ok { rep.violation("strict acceptance == RFC 8259 reference", "verdict", format!("{:?}", text), format!("real={:?} reference={:?}", real.as_ref().map(|_| "Ok").map_err(|e| format!("{:?}", e)), r.as_ref().map(|_| "Ok"))); }
            }
            "C02" => if let (Ok((v, _)), Ok((rv, _))) = (&real, &r) {
                if &from_real(v) != rv { rep.violation("parsed value == document content", "value", format!("{:?}", text), format!("real={:?} reference={:?}", from_real(v), rv)); }
                // key lookups in source order
                check_lookups(v, rv, text, rep);
            },
            "C05" => if let (Ok((_, cm)), Ok((_, frags))) = (&real, &r) {
                let got: Vec<RefFrag> = cm.iter().map(|(_, e)| RefFrag { start: e.span.start(), end: e.span.end(), volume: e.volume }).collect();
                if &got != frags { rep.violation("code map == pre-order fragments with exact spans/volumes", "codemap", format!("{:?}", text), format!("real={:?} reference={:?}", got, frags)); }
            },
            "C07" => if let (Err(e), Err(re)) = (&real, &r) {
                if !err_matches(e, re) { rep.violation("error position/character == first offending", "error", format!("{:?}", text), format!("real={:?} reference={:?}", e, re)); }
                // the accessors report the same place: `position()` is the offset the error carries (the
                // start of its span), `span()` starts there, and both ends are character boundaries of the input
                let (pos, sp) = (e.position(), e.span());
                let carried = match e { Error::Unexpected(p, _) => *p, Error::InvalidUtf8(p) => *p, Error::Stream(p, _) => *p, Error::InvalidUnicodeCodePoint(s, _) => s.start(), Error::MissingLowSurrogate(s, _) => s.start(), Error::InvalidLowSurrogate(s, _, _) => s.start() };
                let carried_end = match e { Error::InvalidUnicodeCodePoint(s, _) => s.end(), Error::MissingLowSurrogate(s, _) => s.end(), Error::InvalidLowSurrogate(s, _, _) => s.end(), _ => carried };
                if pos != carried || sp.start() != carried || sp.end() != carried_end || !(sp.end() <= text.len() && text.is_char_boundary(pos) && text.is_char_boundary(sp.end())) {
                    rep.violation("error position/character == first offending", "error-accessors", format!("{:?}", text), format!("error={:?} position()={} span()=[{}, {})", e, pos, sp.start(), sp.end()));
                }
            },
            "C12" => {
                if !verdict_ok { rep.violation("lenient options accept exactly the documented relaxations", "verdict", format!("{:?} opts={:?}", text, o), format!("real_ok={} reference_ok={}", real.is_ok(), r.is_ok())); }
                else if let (Ok((v, cm)), Ok((rv, frags))) = (&real, &r) {
                    if &from_real(v) != rv { rep.violation("lenient decoding (one U+FFFD per unpaired surrogate, pairs combine)", "value", format!("{:?} opts={:?}", text, o), format!("real={:?} reference={:?}", from_real(v), rv)); }
                    if let Ok((sv, sfrags)) = &strict_ref {
                        // conservative extension: strict-valid documents are untouched
                        let got: Vec<RefFrag> = cm.iter().map(|(_, e)| RefFrag { start: e.span.start(), end: e.span.end(), volume: e.volume }).collect();
                        if sv != rv || &got != sfrags || frags != sfrags { rep.violation("strict-valid document parses identically under every option", "conservative", format!("{:?} opts={:?}", text, o), "value or code map differs from the strict result".into()); }
                    }
                }
            }
            _ => {}
        }
    }
}

fn check_lookups(v: &Value, rv: &RefValue, text: &str, rep: &mut Report) {
    if let (Value::Object(o), RefValue::Obj(es)) = (v, rv) {
        // the keys asked for: every key of the object, and keys it does NOT have (a lookup of an absent key
        // finds nothing) -- the empty key, fixed probes, and each present key with one character more / less
        let mut asked: Vec<String> = Vec::new();
        for (k, _) in es { for q in [k.clone(), format!("{}x", k), k.chars().take(k.chars().count().saturating_sub(1)).collect::<String>()] { if !asked.contains(&q) { asked.push(q); } } }
        for q in ["", "a", "b", "c", "absent", "\u{e9}"] { if !asked.contains(&q.to_string()) { asked.push(q.to_string()); } }
        for k in &asked {
            let want: Vec<&RefValue> = es.iter().filter(|(k2, _)| k2 == k).map(|(_, x)| x).collect();
            let got: Vec<RefValue> = o.get(k.as_str()).map(from_real).collect();
            if got.iter().collect::<Vec<_>>() != want { rep.violation("key lookup == linear scan in source order", "lookup", format!("{:?} key={:?}", text, k), format!("got={:?}", got)); }
            // every other lookup of the key against the same linear scan
            let pos: Vec<usize> = es.iter().enumerate().filter(|(_, (k2, _))| k2 == k).map(|(i, _)| i).collect();
            let mut bad = |what: &str, detail: String| rep.violation("key lookup == linear scan in source order", "lookup-api", format!("{:?} key={:?} via {}", text, k, what), detail);
            let ents = o.entries();
            if o.indexes_of(k.as_str()).collect::<Vec<_>>() != pos { bad("indexes_of", format!("{:?} expected {:?}", o.indexes_of(k.as_str()).collect::<Vec<_>>(), pos)); }
            if o.get_with_index(k.as_str()).map(|(i, v)| (i, v as *const Value)).collect::<Vec<_>>() != pos.iter().map(|&i| (i, &ents[i].value as *const Value)).collect::<Vec<_>>() { bad("get_with_index", format!("expected positions {:?}", pos)); }
            if o.get_entries(k.as_str()).map(|e| e as *const _).collect::<Vec<_>>() != pos.iter().map(|&i| &ents[i] as *const _).collect::<Vec<_>>() { bad("get_entries", format!("expected positions {:?}", pos)); }
            if o.get_entries_with_index(k.as_str()).map(|(i, e)| (i, e as *const _)).collect::<Vec<_>>() != pos.iter().map(|&i| (i, &ents[i] as *const _)).collect::<Vec<_>>() { bad("get_entries_with_index", format!("expected positions {:?}", pos)); }
            if o.index_of(k.as_str()) != pos.first().copied() { bad("index_of", format!("{:?} expected {:?}", o.index_of(k.as_str()), pos.first())); }
            if o.redundant_index_of(k.as_str()) != pos.get(1).copied() { bad("redundant_index_of", format!("{:?} expected {:?}", o.redundant_index_of(k.as_str()), pos.get(1))); }
            if o.contains_key(k.as_str()) != !pos.is_empty() { bad("contains_key", format!("{}", o.contains_key(k.as_str()))); }
            match (o.get_unique(k.as_str()), pos.len()) {
                (Ok(None), 0) => {}
                (Ok(Some(v)), 1) if std::ptr::eq(v, &ents[pos[0]].value) => {}
                (Err(d), n) if n >= 2 && std::ptr::eq(d.0, &ents[pos[0]]) && std::ptr::eq(d.1, &ents[pos[1]]) => {}
                _ => bad("get_unique", format!("positions {:?}", pos)),
            }
            match (o.get_unique_entry(k.as_str()), pos.len()) {
                (Ok(None), 0) => {}
                (Ok(Some(e)), 1) if std::ptr::eq(e, &ents[pos[0]]) => {}
                (Err(d), n) if n >= 2 && std::ptr::eq(d.0, &ents[pos[0]]) && std::ptr::eq(d.1, &ents[pos[1]]) => {}
                _ => bad("get_unique_entry", format!("positions {:?}", pos)),
            }
        }
        for (e, (_, rx)) in o.entries().iter().zip(es) { check_lookups(&e.value, rx, text, rep); }
    }
    if let (Value::Array(a), RefValue::Arr(ra)) = (v, rv) { for (x, rx) in a.iter().zip(ra) { check_lookups(x, rx, text, rep); } }
}

fn check_entry_points(text: &str, rep: &mut Report) {
    let a = Value::parse_str(text).is_ok();
    let b = Value::parse_slice(text.as_bytes()).is_ok();
    let c = Value::parse_str_with(text, Options::strict()).is_ok();
    let d = Value::parse_infallible_utf8(text.chars()).is_ok();
    let e = text.parse::<Value>().is_ok();
    let f = Value::parse_utf8(text.chars().map(Ok::<char, ()>)).is_ok();
    let g = Value::parse_slice_with(text.as_bytes(), Options::default()).is_ok();
    if !(a == b && a == c && a == d && a == e && a == f && a == g) {
        rep.violation("all entry points give the same verdict", "entrypoints", format!("{:?}", text), format!("str={} slice={} strict={} infallible={} fromstr={} utf8={} slice_with={}", a, b, c, d, e, f, g));
    }
}

fn check_bytes(prop: &str, bytes: &[u8], rep: &mut Report) {
    let real = Value::parse_slice(bytes);
    rep.eval(bytes.len() > 1, fnv(bytes));
    match std::str::from_utf8(bytes) {
        Ok(text) => {
            let chars: Vec<char> = text.chars().collect();
            let r = ref_parse(&chars, ALL_OPTS[0]);
            if real.is_ok() != r.is_ok() && (prop == "C01") { rep.violation("byte input: verdict == reference on well-formed UTF-8", "bytes-verdict", format!("{:?}", bytes), format!("real_ok={} ref_ok={}", real.is_ok(), r.is_ok())); }
            if prop == "C05" { if let (Ok((_, cm)), Ok((_, frags))) = (&real, &r) {
                let got: Vec<RefFrag> = cm.iter().map(|(_, e)| RefFrag { start: e.span.start(), end: e.span.end(), volume: e.volume }).collect();
                if &got != frags { rep.violation("byte input: code map spans are byte offsets", "bytes-codemap", format!("{:?}", bytes), format!("real={:?} ref={:?}", got, frags)); }
            } }
        }
        Err(ue) => {
            // ill-formed: must be rejected (C01); reported at the first ill-formed sequence unless a
            // syntax error occurs strictly before it (C07)
            let valid = std::str::from_utf8(&bytes[..ue.valid_up_to()]).unwrap();
            let chars: Vec<char> = valid.chars().collect();
            match &real {
                Ok(_) => if prop == "C01" { rep.violation("byte input must be well-formed UTF-8", "bytes-illformed-accepted", format!("{:?}", bytes), "parse_slice returned Ok".into()) },
                Err(e) => if prop == "C07" {
                    let r = ref_parse(&chars, ALL_OPTS[0]);
                    let expect_syntax_before = match &r { Err(RefErr::Unexpected(p, Some(_))) => Some(*p), Err(RefErr::Unexpected(_, None)) => None, Err(_) => Some(0), Ok(_) => None };
                    let ok = match (e, expect_syntax_before) {
                        (Error::InvalidUtf8(p), None) => *p == ue.valid_up_to(),
                        (Error::InvalidUtf8(_), Some(_)) => false,
                        (_, Some(_)) => if let Err(re) = &r { err_matches(e, re) } else { false },
                        (_, None) => false,
                    };
                    if !ok { rep.violation("ill-formed UTF-8 reported at its own offset unless a syntax error comes first", "bytes-error", format!("{:?}", bytes), format!("real={:?} valid_up_to={} ref_on_valid_prefix={:?}", e, ue.valid_up_to(), r.as_ref().err())); }
                }
            }
        }
    }
}

/// the documents of the deep-nesting check (built by the child process)
fn deep_doc(shape: &str, depth: usize) -> (String, bool) {
    let mut s = String::with_capacity(6 * depth + 16);
    match shape {
        "arrays" => { for _ in 0..depth { s.push('['); } s.push('1'); for _ in 0..depth { s.push(']'); } (s, true) }
        "objects" => { for _ in 0..depth { s.push_str("{\"a\":"); } s.push('0'); for _ in 0..depth { s.push('}'); } (s, true) }
        "member-array" => { s.push_str("{\"k\":"); for _ in 0..depth { s.push('['); } for _ in 0..depth { s.push(']'); } s.push_str(",\"z\":1}"); (s, true) }
        "mixed" => { for _ in 0..depth / 2 { s.push_str("[{\"a\":"); } s.push_str("null"); for _ in 0..depth / 2 { s.push_str("}]"); } (s, true) }
        // long runs of insignificant whitespace in front of values: the stack must not grow with them either
        "ws-start" => { for _ in 0..depth { s.push_str("\r\n"); } s.push_str("{\"a\":"); for _ in 0..depth { s.push_str("\t "); } s.push_str("null}"); (s, true) }
        "ws-items" => { s.push_str("[1,"); for _ in 0..depth { s.push(' '); } s.push_str("2 ,"); for _ in 0..depth { s.push('\n'); } s.push_str("[]]"); (s, true) }
        "unclosed-arrays" => { for _ in 0..depth { s.push('['); } (s, false) }
        _ => { for _ in 0..depth { s.push_str("{\"k\":"); } s.push_str("null"); (s, false) }
    }
}

/// child process: parse (and traverse) one deep document inside a small fixed stack; exit 0 iff ok
pub fn deep_child(shape: &str, depth: usize) -> i32 {
    let shape = shape.to_string();
    let handle = std::thread::Builder::new().stack_size(256 * 1024).spawn(move || {
        let (doc, valid) = deep_doc(&shape, depth);
        let r = Value::parse_str(&doc);
        let ok = match &r {
            Ok((v, cm)) => valid && (cm.len() >= depth || shape.starts_with("ws-")) && v.traverse().count() == cm.len(),
            Err(_) => !valid,
        };
        // the deep value is leaked: dropping it recurses, which is not part of parsing
        std::mem::forget(r);
        ok
    }).unwrap();
    match handle.join() { Ok(true) => 0, _ => 3 }
}

fn deep_nesting(rep: &mut Report, depth: usize) {
    // C03: nesting depth does not grow the stack.  Each shape runs in a child process because a
    // stack overflow aborts the process.
    let exe = std::env::current_exe().expect("current_exe");
    for shape in ["arrays", "objects", "member-array", "mixed", "unclosed-arrays", "unclosed-objects", "ws-start", "ws-items"] {
        let st = std::process::Command::new(&exe).args(["deep", shape, &depth.to_string()]).status();
        rep.eval(true, crate::fnv(shape.as_bytes()) ^ depth as u64);
        match st {
            Ok(s) if s.success() => {}
            Ok(s) => rep.violation("deeply nested document parses (and traverses) in a 256 KiB stack", &format!("deep:{}", shape), format!("shape {} depth {}", shape, depth), format!("child ended with {:?} (stack overflow / abort / wrong result)", s)),
            Err(e) => rep.violation("deeply nested document parses in a small fixed stack", "deep-spawn", shape.to_string(), format!("{}", e)),
        }
    }
}

pub fn run(prop: &str, thorough: bool, seed: u64, rep: &mut Report) {
    let (n_struct, n_num, n_str, n_bytes) = if thorough { (7, 7, 6, 5) } else { (5, 6, 5, 4) };
    rep.rule = "every string of at most N pieces over each alphabet (structural tokens, number characters, string-body characters incl. escapes/surrogates/multi-byte), every one-character edit of the literals, byte strings over a UTF-8 edge alphabet; real parser vs reference parser; a case is non-trivial when it is longer than one piece or accepted".into();
    rep.bounds = vec![("structural_len".into(), n_struct.to_string()), ("number_len".into(), n_num.to_string()), ("string_len".into(), n_str.to_string()), ("bytes_len".into(), n_bytes.to_string())];
    rep.checks.push(format!("{}: real parser == reference parser (bounded exhaustive)", prop));
    let structural = ["[", "]", "{", "}", ",", ":", " ", "1", "\"a\"", "null", "\"a\":"];
    for_each(&structural, n_struct, |s| { check_text(prop, s, rep); });
    let numeric = ["-", "0", "1", ".", "e", "E", "+", " ", "]", "x"];
    if prop != "C12" {
        for_each(&numeric, n_num, |s| { check_text(prop, s, rep); let t = format!("[{}", s); check_text(prop, &t, rep); });
    }
    let strbody = ["\"", "\\", "u", "D", "8", "0", "C", "a", "n", "\u{1}", "\u{e9}", "\u{1F600}", "/"];
    for_each(&strbody, n_str, |s| { let t = format!("\"{}", s); check_text(prop, &t, rep); });
    // surrogate escapes as whole pieces (longer combinations)
    let sur = ["\\uD800", "\\uDBFF", "\\uDC00", "\\uDFFF", "\\u0041", "a", "\\n", "\u{e9}", "\"", "\\u12"];
    for_each(&sur, if thorough { 5 } else { 4 }, |s| { let t = format!("\"{}", s); check_text(prop, &t, rep); let t2 = format!("{{\"{}:0}}", s); check_text(prop, &t2, rep); });
    // one-character edits of the literals and of a small corpus
    let corpus = ["true", "false", "null", "[true,false,null]", "{\"k\":[1.5e+3,{}],\"k\":\"\\u00e9\\n\"} ", " [ ] ", "{ }", "[[],{}]", "-0.0e-0", "[{\"a\":1},2]", "{\"a\":[1,{\"b\":[]}],\"c\":{}}"];
    // (the blanks: JSON's four, and characters that Rust's `is_ascii_whitespace` / `is_whitespace` / `trim`
    //  treat as blank but JSON does not -- form feed, vertical tab, NEL, NBSP, U+2028, BOM, U+3000)
    let edits: Vec<char> = "tfnulrsae[]{},:\" 01-.+Ee\\x\u{e9}\t\n\r\u{c}\u{b}\u{85}\u{a0}\u{2028}\u{feff}\u{3000}".chars().collect();
    for doc in corpus {
        let cs: Vec<char> = doc.chars().collect();
        for i in 0..=cs.len() {
            let mut t: String = cs[..i].iter().collect(); check_text(prop, &t, rep); // truncation
            for &e in &edits {
                t = cs[..i].iter().collect(); t.push(e); t.extend(cs[i..].iter()); check_text(prop, &t, rep); // insertion
                if i < cs.len() { t = cs[..i].iter().collect(); t.push(e); t.extend(cs[i + 1..].iter()); check_text(prop, &t, rep); } // replacement
            }
        }
    }
    if prop == "C01" {
        rep.checks.push("C01: all entry points agree".into());
        for_each(&structural, 4, |s| check_entry_points(s, rep));
        for_each(&numeric, 4, |s| check_entry_points(s, rep));
        // characters that Rust's `trim` / `char::is_whitespace` treat as blank but JSON does not, and the
        // four that JSON does: every entry point must agree with `parse_str` on them, in any position
        let blanks = ["1", "[", "]", "true", " ", "\t", "\n", "\r", "\u{b}", "\u{c}", "\u{a0}", "\u{85}", "\u{2028}", "\u{feff}", "\u{3000}"];
        for_each(&blanks, 3, |s| check_entry_points(s, rep));
        // surrogate escapes: the option-less entry points are the STRICT parser (none may silently
        // run under a lenient option record)
        for_each(&sur, 3, |s| { let t = format!("\"{}", s); check_entry_points(&t, rep); });
    }
    if prop == "C01" || prop == "C05" || prop == "C07" {
        rep.checks.push(format!("{}: byte-slice entry point on ill-formed and multi-byte UTF-8", prop));
        let balpha: [u8; 16] = [b'1', b' ', b'[', b']', b'"', 0xC0, 0xA0, 0x80, 0xE2, 0x82, 0xAC, 0xED, 0xF4, 0x90, 0xEF, 0xC3];
        let mut idx: Vec<usize> = vec![];
        loop {
            let bytes: Vec<u8> = idx.iter().map(|&i| balpha[i]).collect();
            check_bytes(prop, &bytes, rep);
            let mut k = idx.len();
            let mut done = false;
            loop {
                if k == 0 { if idx.len() == n_bytes { done = true; } else { idx = vec![0; idx.len() + 1]; } break; }
                k -= 1;
                if idx[k] + 1 < balpha.len() { idx[k] += 1; for j in k + 1..idx.len() { idx[j] = 0; } break; }
            }
            if done { break; }
        }
        // a syntax error followed -- within the next few bytes -- by ill-formed UTF-8: the syntax error is
        // the one to report (a parser that reads ahead before deciding must not let the later bytes win)
        for doc in ["true", "false", "null", "[true,false]", "{\"a\":null}", "-1.5e3", "\"ab\\n\""] {
            let b = doc.as_bytes();
            for i in 0..b.len() { for e in [b'x', b'1', b' ', b'"'] { if b[i] == e { continue; }
                for j in i + 1..=(i + 5).min(b.len()) { for bad in [&[0xFFu8][..], &[0xC0, 0x80], &[0xE2, 0x82]] {
                    let mut t = b.to_vec(); t[i] = e; let tail = t.split_off(j); t.extend_from_slice(bad); t.extend_from_slice(&tail);
                    check_bytes(prop, &t, rep);
                } }
            } }
        }
        for doc in [&b"\xEF\xBB\xBF1"[..], b"1\xC0\xA0", b"\"\xED\xA0\x80\"", b"\"\xF4\x90\x80\x80\"", b"[\"\xE2\x82\xAC\", 1]", b"{\"\xC3\xA9\":\"\xF0\x9F\x98\x80\"}"] { check_bytes(prop, doc, rep); }
        // every boundary of the UTF-8 length classes as a raw character inside a document: the
        // byte-slice and string entry points must agree (verdict, code map, error)
        for cp in [0x7Fu32, 0x80, 0x7FF, 0x800, 0xD7FF, 0xE000, 0xEFFF, 0xF000, 0xFE0F, 0xFEFF, 0xFFFD, 0xFFFF, 0x10000, 0x10FFFF] {
            let c = char::from_u32(cp).unwrap();
            for doc in [format!("[\"{}\",true]", c), format!("{{\"{}k\": [\"a{}\"] }}", c, c), format!("\"{}\" x", c)] { check_bytes(prop, doc.as_bytes(), rep); }
        }
    }
    if matches!(prop, "C01" | "C02" | "C05" | "C07") {
        // one raw character of every bit length (2^k - 1 and 2^k for k = 7..20, both sides of the surrogate
        // range, the last scalar) in front of the places where spans and error offsets are taken: byte
        // positions must advance by the character's UTF-8 length, whatever way that length is obtained
        rep.checks.push(format!("{}: a raw character of every bit length before a span boundary / an error (offsets advance by its UTF-8 length)", prop));
        let mut cps: Vec<u32> = vec![0xD7FF, 0xE000, 0xFFFD, 0x10FFFF];
        for k in 7..=20u32 { cps.push((1 << k) - 1); cps.push(1 << k); }
        for cp in cps {
            let c = match char::from_u32(cp) { Some(c) => c, None => continue };
            for doc in [format!("[\"{}\",true]", c), format!("{{\"{}k\": [\"a{}\"] }}", c, c), format!("\"{}\" x", c), format!("[\"{}\" 1]", c), format!("\"{}{}\"", c, '\u{1}'), format!("[1, {}]", c), format!("{{\"a{}\":1,\"b\" 2}}", c), format!("\"{}\\uD800x\"", c)] {
                check_text(prop, &doc, rep);
            }
        }
    }
    if matches!(prop, "C01" | "C07" | "C02") {
        // every character of U+0000..U+00FF (and a few look-alike digits beyond) in each of the four digit
        // positions of a \uXXXX escape: only 0-9 a-f A-F are hex digits
        rep.checks.push(format!("{}: every character of U+0000..U+00FF and look-alike digits in each digit position of \\uXXXX", prop));
        let mut cands: Vec<char> = (0u32..=0xFF).filter_map(char::from_u32).collect();
        cands.extend(['\u{100}', '\u{660}', '\u{ff10}', '\u{ff21}', '\u{1d7d8}', '\u{2028}']);
        for pos in 0..4 { for &c in &cands {
            let mut digits: Vec<char> = "00e9".chars().collect(); digits[pos] = c;
            let doc = format!("[\"\\u{}\"]", digits.iter().collect::<String>());
            check_text(prop, &doc, rep);
        } }
    }
    if matches!(prop, "C05" | "C02" | "C01") {
        // deep (not huge) nesting: volumes and spans of every ancestor when 1..130 fragments are open at once
        // (arrays, objects, alternating, with siblings after the deep part) -- bookkeeping that is exact for
        // shallow documents must stay exact when a fixed-size table or a small counter would run out
        rep.checks.push(format!("{}: nesting 1..130 deep: value and code map (spans, volumes of every ancestor) == reference", prop));
        for d in (1usize..=40).chain([47, 48, 49, 63, 64, 65, 66, 100, 127, 128, 129, 130]) {
            let mut a = String::new(); for _ in 0..d { a.push('['); } a.push('1'); for _ in 0..d { a.push_str(",2]"); }
            let mut o = String::new(); for _ in 0..d { o.push_str("{\"k\":"); } o.push_str("null"); for _ in 0..d { o.push_str(",\"j\":0}"); }
            let mut m = String::new(); for i in 0..d { m.push_str(if i % 2 == 0 { "[" } else { "{\"k\": " }); } m.push_str("\"x\""); for i in (0..d).rev() { m.push_str(if i % 2 == 0 { " ]" } else { "}" }); }
            for doc in [a, o, m] { check_text(prop, &doc, rep); }
        }
    }
    if prop == "C02" {
        // objects with duplicated keys: every assignment of up to N members to the keys a/b/c,
        // values numbered in source order; lookups must be the linear scan (check_lookups)
        rep.checks.push("C02: key lookups on objects with duplicate keys == linear scan in source order".into());
        let keys = ["a", "b", "c"];
        let maxm = if thorough { 8 } else { 6 };
        for m in 0..=maxm {
            let mut idx = vec![0usize; m];
            loop {
                let mut doc = String::from("{");
                for (j, &k) in idx.iter().enumerate() { if j > 0 { doc.push(','); } doc.push_str(&format!("\"{}\":{}", keys[k], j)); }
                doc.push('}');
                check_text(prop, &doc, rep);
                let nested = format!("[{},{{\"x\":{}}}]", doc, doc);
                if m <= 4 { check_text(prop, &nested, rep); }
                let mut k = m;
                let mut done = true;
                while k > 0 { k -= 1; if idx[k] + 1 < keys.len() { idx[k] += 1; for j in k + 1..m { idx[j] = 0; } done = false; break; } }
                if done { break; }
            }
        }
        rep.bounds.push(("duplicate_key_members".into(), maxm.to_string()));
        // many distinct keys: the hash index goes through several growth / rehash cycles
        for n in [4usize, 5, 8, 9, 16, 17, 33, 70, 150] {
            let mut doc = String::from("{");
            for i in 0..n { if i > 0 { doc.push(','); } doc.push_str(&format!("\"key{}\":{}", i % (n - n / 4), i)); }
            doc.push('}');
            check_text(prop, &doc, rep);
        }
    }
    if prop == "C02" {
        // every \uXXXX code unit, alone (all four option records); surrogate pairs; raw scalars
        rep.checks.push("C02: all 65,536 \\uXXXX escapes under every option record; surrogate pairs; raw scalars at the length-class boundaries".into());
        for u in 0u32..=0xFFFF { let t = format!("\"\\u{:04X}\"", u); check_text(prop, &t, rep); }
        let step = if thorough { 1 } else { 37 };
        let mut h = 0xD800u32; while h <= 0xDBFF { let mut l = 0xDC00u32 + (h % step); while l <= 0xDFFF { let t = format!("\"\\u{:04x}\\u{:04X}\"", h, l); check_text(prop, &t, rep); l += step; } h += if thorough { 1 } else { 7 }; }
        let mut c = 0u32; while c <= 0x10FFFF { if let Some(ch) = char::from_u32(c) { if ch != '"' && ch != '\\' && c >= 0x20 { let t = format!("\"{}\"", ch); check_text(prop, &t, rep); } } c += if thorough { 1 } else if c < 0x3000 { 1 } else { 251 }; }
        rep.bounds.push(("escapes".into(), "65536 x 4 option records".into()));
    }
    if prop == "C12" {
        // the options relax surrogate ESCAPES only: ill-formed UTF-8 in the byte input is still an error
        rep.checks.push("C12: byte-slice entry point under every option record: ill-formed UTF-8 is never accepted".into());
        for doc in [&b"[\"a\xffb\"]"[..], b"\"\xc3\"", b"{\"k\xed\xa0\x80\":1}", b"\"\xed\xb0\x80\"", b"[1]\xff", b"\"\xf4\x90\x80\x80\""] {
            for &o in ALL_OPTS.iter() {
                let r = Value::parse_slice_with(doc, opts_real(o));
                rep.eval(true, fnv(doc) ^ (o.trunc as u64) << 1 ^ (o.invalid as u64));
                if r.is_ok() { rep.violation("lenient options accept exactly the documented relaxations", "bytes-lenient", format!("{:?} opts={:?}", doc, o), "ill-formed UTF-8 accepted by parse_slice_with".into()); }
            }
        }
        for text in ["\"\\uFFFF\"", "\"\\uFDD0\\uFFFE\"", "{\"k\\uffff\":1}"] { check_text(prop, text, rep); }
    }
    if prop == "C03" {
        rep.checks.push("C03: 200000-deep nesting in a 256 KiB stack; no panic on any enumerated input".into());
        deep_nesting(rep, if thorough { 1_000_000 } else { 200_000 });
    }
    // random longer documents
    let mut rng = Rng(seed.wrapping_mul(0x9E3779B97F4A7C15) | 1);
    let pieces = ["[", "]", "{", "}", ",", ":", " ", "\n", "1", "-0.5e+10", "\"a\"", "\"\\uD83D\\uDE00\"", "\"\\uD800\"", "null", "true", "false", "\"k\":", "\"\u{e9}\""];
    for _ in 0..(if thorough { 200_000 } else { 20_000 }) {
        let n = 1 + rng.below(14);
        let mut s = String::new();
        for _ in 0..n { s.push_str(pieces[rng.below(pieces.len())]); }
        check_text(prop, &s, rep);
    }
    rep.sample("\"\\uD800\\uD800\\uDC00\"".into());
    rep.sample("[1, {\"a\":[] }]".into());
    rep.sample("-0.0e-0".into());
}
