//! verif-replay: bounded stand-ins and counterexample search against the real json-syntax API.
//!   verif-replay check  <PROP> --tier quick|thorough --seed N --out FILE
//!   verif-replay replay <PROP> --out FILE      (input in env VERIF_REPLAY_INPUT, JSON)
mod refjson;
mod checks_parse;
mod checks_print;
mod checks_object;
mod checks_misc;

use refjson::*;
use std::collections::BTreeSet;

pub struct Report {
    pub prop: String,
    pub checks: Vec<String>,
    pub evaluations: u64,
    pub distinct: BTreeSet<u64>,
    pub nontrivial: u64,
    pub samples: Vec<String>,
    pub violations: Vec<(String, String, String, String)>, // (check, key, input, detail)
    pub bounds: Vec<(String, String)>,
    pub rule: String,
}

impl Report {
    pub fn new(prop: &str) -> Self {
        Report { prop: prop.into(), checks: vec![], evaluations: 0, distinct: BTreeSet::new(), nontrivial: 0, samples: vec![], violations: vec![], bounds: vec![], rule: String::new() }
    }
    pub fn eval(&mut self, nontrivial: bool, fingerprint: u64) {
        self.evaluations += 1;
        if nontrivial && self.distinct.len() < 2_000_000 && self.distinct.insert(fingerprint) { self.nontrivial += 1; }
    }
    pub fn sample(&mut self, s: String) { if self.samples.len() < 12 { self.samples.push(s); } }
    pub fn violation(&mut self, check: &str, key: &str, input: String, detail: String) {
        if self.violations.len() < 20 { self.violations.push((check.into(), key.into(), input, detail)); }
    }
    pub fn to_json(&self) -> String {
        let mut s = String::from("{");
        s += &format!("\"property\":{},", jstr(&self.prop));
        s += &format!("\"bounded\":true,\"checks\":[{}],", self.checks.iter().map(|c| jstr(c)).collect::<Vec<_>>().join(","));
        s += &format!("\"evaluations\":{},\"distinct_nontrivial\":{},", self.evaluations, self.nontrivial);
        s += &format!("\"rule\":{},", jstr(&self.rule));
        s += &format!("\"bounds\":{{{}}},", self.bounds.iter().map(|(k, v)| format!("{}:{}", jstr(k), jstr(v))).collect::<Vec<_>>().join(","));
        s += &format!("\"samples\":[{}],", self.samples.iter().map(|c| jstr(c)).collect::<Vec<_>>().join(","));
        s += &format!("\"violations\":[{}]", self.violations.iter().map(|(c, k, i, d)| format!("{{\"check\":{},\"key\":{},\"input\":{},\"detail\":{}}}", jstr(c), jstr(k), jstr(i), jstr(d))).collect::<Vec<_>>().join(","));
        s += "}";
        s
    }
}

pub fn jstr(s: &str) -> String { let mut o = String::new(); ref_escape(s, &mut o); o }

pub fn fnv(bytes: &[u8]) -> u64 { let mut h = 0xcbf29ce484222325u64; for b in bytes { h ^= *b as u64; h = h.wrapping_mul(0x100000001b3); } h }

pub struct Rng(pub u64);
impl Rng {
    pub fn next(&mut self) -> u64 { let mut x = self.0; x ^= x << 13; x ^= x >> 7; x ^= x << 17; self.0 = x; x }
    pub fn below(&mut self, n: usize) -> usize { (self.next() % n as u64) as usize }
}

// ---- conversions between the reference model and the real value -----------------------------------
pub fn to_real(v: &RefValue) -> json_syntax::Value {
    use json_syntax::Value;
    match v {
        RefValue::Null => Value::Null,
        RefValue::Bool(b) => Value::Boolean(*b),
        RefValue::Num(n) => Value::Number(json_syntax::NumberBuf::new(n.as_bytes().iter().copied().collect()).expect("reference produced an invalid number")),
        RefValue::Str(s) => Value::String(s.as_str().into()),
        RefValue::Arr(a) => Value::Array(a.iter().map(to_real).collect()),
        RefValue::Obj(es) => { let mut o = json_syntax::Object::new(); for (k, x) in es { o.push(k.as_str().into(), to_real(x)); } Value::Object(o) }
    }
}

pub fn from_real(v: &json_syntax::Value) -> RefValue {
    use json_syntax::Value;
    match v {
        Value::Null => RefValue::Null,
        Value::Boolean(b) => RefValue::Bool(*b),
        Value::Number(n) => RefValue::Num(n.as_str().to_string()),
        Value::String(s) => RefValue::Str(s.as_str().to_string()),
        Value::Array(a) => RefValue::Arr(a.iter().map(from_real).collect()),
        Value::Object(o) => RefValue::Obj(o.entries().iter().map(|e| (e.key.as_str().to_string(), from_real(&e.value))).collect()),
    }
}

fn main() {
    let args: Vec<String> = std::env::args().collect();
    let mode = args.get(1).cloned().unwrap_or_default();
    let prop = args.get(2).cloned().unwrap_or_default();
    let mut tier = "quick".to_string();
    let mut seed = 0u64;
    let mut out = String::new();
    let mut i = 3;
    while i < args.len() {
        match args[i].as_str() {
            "--tier" => { tier = args[i + 1].clone(); i += 2; }
            "--seed" => { seed = args[i + 1].parse().unwrap_or(0); i += 2; }
            "--out" => { out = args[i + 1].clone(); i += 2; }
            _ => { i += 1; }
        }
    }
    if mode == "deep" {
        let depth: usize = args.get(3).and_then(|d| d.parse().ok()).unwrap_or(1000);
        std::process::exit(checks_parse::deep_child(&prop, depth));
    }
    let thorough = tier == "thorough";
    let mut rep = Report::new(&prop);
    if mode == "replay" {
        let input = std::env::var("VERIF_REPLAY_INPUT").unwrap_or_default();
        checks_misc::replay(&prop, &input, &mut rep);
    } else {
        // safety net: a panic of the library inside a bounded check that does not guard the call
        // itself is a failing behaviour of the real code, not a failure of this harness
        let r = std::panic::catch_unwind(std::panic::AssertUnwindSafe(|| match prop.as_str() {
            "C01" | "C02" | "C03" | "C05" | "C07" | "C12" => checks_parse::run(&prop, thorough, seed, &mut rep),
            "C04" | "C08" | "C13" => checks_print::run(&prop, thorough, seed, &mut rep),
            "C06" | "C14" | "C15" => checks_object::run(&prop, thorough, seed, &mut rep),
            "C09" | "C10" | "C11" | "C20" => checks_misc::run(&prop, thorough, seed, &mut rep),
            _ => { eprintln!("no bounded check for {}", prop); }
        }));
        if let Err(e) = r {
            let msg = e.downcast_ref::<String>().cloned().or_else(|| e.downcast_ref::<&str>().map(|s| s.to_string())).unwrap_or_default();
            let n = rep.evaluations;
            let last = rep.checks.last().cloned().unwrap_or_default();
            rep.violation("the library panicked during a bounded check", "panic", format!("case #{} of `{}`", n + 1, last), msg);
        }
    }
    let js = rep.to_json();
    if out.is_empty() { println!("{}", js); } else { std::fs::write(&out, js).expect("cannot write result"); }
    std::process::exit(if rep.violations.is_empty() { 0 } else { 1 });
}
