#!/usr/bin/env python3
"""dev helper: merge_diag.py MAIN.json PARTIAL.json -> writes seeded/DIAGONAL.json = MAIN updated with PARTIAL"""
import json, sys
a = json.load(open(sys.argv[1])); b = json.load(open(sys.argv[2]))
a["results"].update(b["results"])
json.dump(a, open("seeded/DIAGONAL.json", "w"), indent=1)
print(len(a["results"]), "seeds")
