#!/usr/bin/env python3
"""False-alarm matrix: every behaviour-preserving change in seeded/benign x the checks whose units read
the files it touches, on scratch clones of /repo.  A `violation` here is a false alarm of the machinery;
`ok` and `no-verdict` (exit 2: lost anchor / unannotated loop / unsupported construct) are both acceptable.
usage: benign_matrix.py [--workers N]      writes seeded/benign/BENIGN.json"""
import json, os, subprocess, sys, shutil, tempfile, concurrent.futures, argparse, re
HERE = os.path.dirname(os.path.abspath(__file__))
sys.path.insert(0, os.path.join(HERE, "driver"))
import config as CFG
ap = argparse.ArgumentParser()
ap.add_argument("--workers", type=int, default=4)
ap.add_argument("--repo", default=os.environ.get("VP_RUN_REPO", "/repo"))
ap.add_argument("--only", default="", help="run only the patches whose file name starts with this prefix and merge them into the existing BENIGN.json")
a = ap.parse_args()
BY_FILE = [("src/parse/", ["C01", "C02", "C03", "C05", "C07", "C12"]), ("src/print/", ["C04", "C08", "C13", "C09"]),
           ("src/object/", ["C06", "C02", "C09", "C10", "C11", "C14", "C04"]), ("src/lib.rs", ["C11", "C20", "C04", "C08", "C13", "C14"]),
           ("src/kind.rs", ["C20"]), ("src/code_map.rs", ["C11", "C05"]), ("src/array.rs", ["C11"]), ("src/try_from.rs", ["C11"]), ("src/unordered.rs", ["C15"])]
bdir = os.path.join(HERE, "seeded", "benign")
patches = sorted(f for f in os.listdir(bdir) if f.endswith(".diff") and f.startswith(a.only))
def props_of(patch):
    txt = open(os.path.join(bdir, patch)).read()
    files = re.findall(r"^\+\+\+ b/(\S+)", txt, re.M)
    out = []
    for f in files:
        for pre, ps in BY_FILE:
            if f.startswith(pre):
                out += ps
    return sorted(set(out) & set(CFG.PROPS))
def work(patch):
    scratch = tempfile.mkdtemp(prefix="benign-")
    repo = os.path.join(scratch, "repo")
    subprocess.run(["git", "clone", "-q", a.repo, repo], check=True)
    r = subprocess.run(["git", "-C", repo, "apply", os.path.join(bdir, patch)], capture_output=True, text=True)
    if r.returncode != 0:
        shutil.rmtree(scratch, ignore_errors=True)
        return patch, {"error": "patch does not apply: " + r.stderr[:200]}
    env = dict(os.environ, VERIF_REPO=repo, VERIF_TARGET_DIR=os.path.join(scratch, "target"))
    out = {}
    for p in props_of(patch):
        pr = subprocess.run([os.path.join(HERE, "check"), p], capture_output=True, text=True, env=env)
        out[p] = "ok" if pr.returncode == 0 else ("violation" if (pr.returncode == 1 or "VIOLATION property=" in pr.stdout) else "no-verdict")
    shutil.rmtree(scratch, ignore_errors=True)
    return patch, out
res = {}
if a.only and os.path.exists(os.path.join(bdir, "BENIGN.json")):
    res = json.load(open(os.path.join(bdir, "BENIGN.json")))["results"]
with concurrent.futures.ThreadPoolExecutor(max_workers=a.workers) as ex:
    for patch, out in ex.map(work, patches):
        res[patch] = out
        print(patch, out, flush=True)
bad = {p: o for p, o in res.items() if "error" in o or any(v == "violation" for v in o.values())}
json.dump({"note": "behaviour-preserving changes x the checks reading the touched files; `violation` would be a false alarm", "results": res, "false_alarms": sorted(bad)}, open(os.path.join(bdir, "BENIGN.json"), "w"), indent=1)
print("FALSE ALARMS:", sorted(bad))
