#!/usr/bin/env python3
"""Driver: ./check <ID> [--tier quick|thorough] [--replay FILE]

exit 0  every obligation mapped to the property was discharged (and guards passed)
exit 1  VIOLATION property=<ID> replay=<path>   (a named obligation failed)
exit 2  no verdict (lost anchor, unsupported construct, rlimit, tool failure)
"""
import concurrent.futures
import json
import os
import re
import shutil
import subprocess
import sys
import tempfile
import time

HERE = os.path.dirname(os.path.abspath(__file__))
VERIF = os.path.dirname(HERE)
sys.path.insert(0, os.path.join(VERIF, "extract"))
sys.path.insert(0, HERE)

import extract as EX  # noqa: E402
import config as CFG  # noqa: E402

REPO = os.environ.get("VERIF_REPO", "/repo")


def log(*a):
    print(*a, file=sys.stderr, flush=True)


class NoVerdict(Exception):
    pass


# --------------------------------------------------------------------------
# Verus units


def build_unit(unit, scratch, canary=False):
    tpl = os.path.join(VERIF, "units", unit + ".vrs")
    u = EX.Unit(REPO, tpl, canary=canary)
    try:
        text = u.build()
    except (EX.ExtractError, EX.LexError) as e:
        raise NoVerdict("extraction of unit `%s` failed: %s" % (unit, e))
    name = unit + ("_canary" if canary else "")
    path = os.path.join(scratch, name + ".rs")
    with open(path, "w", encoding="utf-8") as f:
        f.write(text)
    u.report["functions_under_contract"] = u.fn_names
    u.report["generated_lines"] = text.count("\n")
    u.report["trusted"] = scan_trusted(text)
    return path, u.report


def scan_trusted(text):
    """mechanical scan of the generated file for every assumption"""
    out = []
    lines = text.split("\n")
    for n, line in enumerate(lines):
        for pat in CFG.TRUST_PATTERNS:
            if re.search(pat, line) and not line.strip().startswith("//"):
                what = line.strip()
                if "external_body" in line or "external_type_specification" in line or what == "#[verifier::external]":
                    # describe by the item that follows
                    for m in range(n + 1, min(n + 6, len(lines))):
                        if re.search(r"\b(fn|struct|enum|impl|trait)\b", lines[m]) and not lines[m].strip().startswith("#"):
                            what = what + " " + lines[m].strip()
                            break
                out.append(what[:220])
                break
    return out


ERR_RE = re.compile(r"^(error|warning)(\[[A-Z0-9]+\])?: (.*)$")
LOC_RE = re.compile(r"^\s*--> ([^:]+):(\d+):(\d+)")
LOC2_RE = re.compile(r"^\s*::: ([^:]+):(\d+):(\d+)")
NUM_RE = re.compile(r"^\s*(\d+) \|")


def parse_stderr(text):
    """-> list of {level, msg, line, snippet}"""
    out = []
    cur = None
    for line in text.split("\n"):
        m = ERR_RE.match(line)
        if m:
            cur = {"level": m.group(1), "code": m.group(2), "msg": m.group(3), "line": None, "text": [line]}
            out.append(cur)
            continue
        if line.startswith("note:") or line.startswith("verification results"):
            cur = None
            continue
        if cur is not None:
            cur["text"].append(line)
            m = LOC_RE.match(line) or LOC2_RE.match(line)
            if m:
                # snippets may come from other files (vstd's std_specs for a std precondition): line
                # numbers are only meaningful for the generated unit file, the file of the first location
                cur["_curfile"] = m.group(1).strip()
                if cur["line"] is None:
                    cur["line"] = int(m.group(2))
                    cur["file"] = cur["_curfile"]
            if cur.get("file") is not None and cur.get("_curfile") != cur.get("file"):
                # the clause that failed lives in vstd's specification of a std function
                # (`Option::expect`, `unwrap`, indexing ...): a call that may panic
                if "failed precondition" in line:
                    cur["foreign_clause"] = True
                continue
            # a failed postcondition is reported AT the clause (which may sit in a trait
            # declaration); the function that failed it is the secondary span
            m = NUM_RE.match(line)
            if m:
                cur["_last_num"] = int(m.group(1))
            if ("at the end of the function body" in line or "at this exit" in line) and cur.get("_last_num") and not cur.get("fn_line"):
                cur["fn_line"] = cur["_last_num"]
            # a failed precondition is reported AT the call; the clause is the secondary span
            if ("failed precondition" in line or "failed this invariant" in line or "failed this postcondition" in line) and cur.get("_last_num") and not cur.get("clause_line"):
                # (the clause that failed, wherever the error itself is reported: at the call, at a
                # `continue`, at an exit)
                cur["clause_line"] = cur["_last_num"]
    for e in out:
        e["text"] = "\n".join(e["text"])[:3000]
    return out


def run_verus(path, seed=None, extra=(), multiple_errors=12, rlimit=None):
    cmd = ["verus", path, "--output-json", "--time", "--multiple-errors", str(multiple_errors), "--rlimit", str(rlimit or CFG.VERUS_RLIMIT), "--num-threads", str(CFG.VERUS_THREADS), "--triggers-mode", "silent"]
    if seed is not None:
        cmd += ["--smt-option", "smt.random_seed=%d" % seed]
    cmd += list(extra)
    t0 = time.time()
    try:
        p = subprocess.run(cmd, cwd=os.path.dirname(path), capture_output=True, text=True, timeout=CFG.VERUS_TIMEOUT_S)
    except subprocess.TimeoutExpired:
        raise NoVerdict("verus did not finish within %d s on %s (the solver diverged without consuming its resource limit): no verdict" % (CFG.VERUS_TIMEOUT_S, os.path.basename(path)))
    wall = time.time() - t0
    js = None
    try:
        js = json.loads(p.stdout)
    except Exception:
        js = None
    return {"cmd": " ".join(cmd), "rc": p.returncode, "json": js, "stderr": p.stderr, "wall": wall}


def function_results(js):
    """per function verdicts from --output-json"""
    out = {}
    if not js:
        return out
    for mod in js.get("times-ms", {}).get("smt", {}).get("smt-run-module-times", []):
        for fb in mod.get("function-breakdown", []):
            out[fb["function"]] = {"success": fb.get("success"), "ms": fb.get("time"), "rlimit": fb.get("rlimit"), "mode": fb.get("mode:")}
    return out


def item_for_line(report, line):
    for it in report["items"]:
        ol = it.get("out_lines")
        if ol and ol[0] <= line <= ol[1]:
            return it
    return None


TAG_RE = re.compile(r"//.*\[(composite:\s*)?((?:C\d\d)(?:[ ,]+C\d\d)*)\]")


def clause_tags(gen_lines, line):
    """property tags written on the failing clause (its first line):
         // [C05 C07]             the clause speaks for these properties
         // [composite: C01 C05]  the clause is the whole contract that callers use; it is only
                                  consulted when no facet clause of the same function failed
    -> (tags or None, composite flag)"""
    if not (1 <= line <= len(gen_lines)):
        return None, False
    m = TAG_RE.search(gen_lines[line - 1])
    if not m:
        return None, False
    return re.findall(r"C\d\d", m.group(2)), bool(m.group(1))


def analyse(unit, path, report, res):
    """-> dict(ok, failures=[{item,label,msg,text,kind}], internal=[...], novalue=reason|None, stats)"""
    js = res["json"]
    gen_lines = open(path, encoding="utf-8").read().split("\n")
    errs = [e for e in parse_stderr(res["stderr"]) if e["level"] == "error"]
    if js is None or "verification-results" not in js:
        hard = [e for e in errs if not e["msg"].startswith("aborting")]
        raise NoVerdict("verus produced no verdict for unit `%s` (generated file rejected): %s" % (unit, (hard[0]["text"] if hard else res["stderr"][-1500:])))
    vr = js["verification-results"]
    if vr.get("encountered-vir-error"):
        hard = [e for e in errs if not e["msg"].startswith("aborting")]
        raise NoVerdict("unit `%s`: construct outside the verifier's reach: %s" % (unit, hard[0]["text"] if hard else "?"))
    fres = function_results(js)
    failures, internal, rlimited = [], [], []
    for e in errs:
        if e["msg"].startswith("aborting"):
            continue
        if e["line"] is None:
            internal.append(e)
            continue
        it = item_for_line(report, e.get("fn_line") or e["line"]) or item_for_line(report, e["line"])
        tag_line = e.get("clause_line") or e["line"]
        low = e["msg"].lower()
        safety = any(k in low for k in ("overflow", "underflow", "out of bounds", "division by zero", "divide by zero", "shift")) \
            or (low.startswith("precondition not satisfied") and bool(e.get("foreign_clause")))
        rec = {"label": it["label"] if it else None, "props": (it.get("props") if it else None), "msg": e["msg"], "text": e["text"], "line": e["line"], "tags": clause_tags(gen_lines, tag_line)[0], "composite": clause_tags(gen_lines, tag_line)[1], "safety": safety}
        if "rlimit" in e["msg"].lower() or "resource limit" in e["msg"].lower():
            rlimited.append(rec)
        elif e["code"]:
            # a rustc error after VIR (lifetime/erasure check): the generated file is not valid Rust
            raise NoVerdict("unit `%s`: generated file rejected by rustc: %s" % (unit, e["text"]))
        elif it is None:
            internal.append(rec)
        else:
            failures.append(rec)
    return {"unit": unit, "verified": vr.get("verified", 0), "errors": vr.get("errors", 0), "failures": failures, "internal": internal, "rlimited": rlimited, "functions": fres, "wall": res["wall"], "cmd": res["cmd"], "smt_ms": js.get("times-ms", {}).get("smt", {}).get("total"), "total_ms": js.get("times-ms", {}).get("total")}


def verify_unit(unit, scratch, tier="quick"):
    path, report = build_unit(unit, scratch)
    res = run_verus(path)
    an = analyse(unit, path, report, res)
    an["report"] = report
    an["path"] = path
    an["stability_runs"] = 1
    key = lambda f: f.get("label") or ("<framework> line %s" % f.get("line"))
    if an["failures"] or an["rlimited"] or an["internal"] or tier == "thorough":
        # confirmation runs under other solver seeds: a failure (of an obligation of the code or
        # of a lemma of the framework) is reported only if it happens every time; the thorough
        # tier always does them, as a stability check of the proofs
        first_fail = {key(f) for f in an["failures"] + an["internal"]}
        first_all = first_fail | {key(f) for f in an["rlimited"]}
        failed_every_time = set(first_all)
        real = set(first_fail)
        seen_any = set(first_all)
        for seed in (7, 1234567):
            r2 = analyse(unit, path, report, run_verus(path, seed=seed))
            now_fail = {key(f) for f in r2["failures"] + r2["internal"]}
            now = now_fail | {key(f) for f in r2["rlimited"]}
            failed_every_time &= now
            real |= now_fail
            seen_any |= now
            an["stability_runs"] += 1
        an["failures"] = [f for f in an["failures"] if key(f) in failed_every_time]
        an["internal"] = [f for f in an["internal"] if key(f) in failed_every_time]
        an["rlimited"] = [f for f in an["rlimited"] if key(f) in failed_every_time and key(f) not in real]
        an["flaky"] = sorted(seen_any - failed_every_time)
    return an


def verify_canary(unit, scratch):
    """vacuity guard: `assert(false)` is planted at the start of every function body under
    contract and at the start of every annotated loop body; each of them must FAIL (a
    contradictory precondition, invariant or assumed contract would make them pass).
    Returns the list of functions where `false` is provable."""
    path, report = build_unit(unit, scratch, canary=True)
    # a contradictory context proves `false` at once; a small resource limit is enough to tell
    # (a canary that runs out of resources is undecided, which is not vacuous)
    res = run_verus(path, multiple_errors=3, rlimit=CFG.CANARY_RLIMIT)
    js = res["json"]
    if js is None or "verification-results" not in js:
        raise NoVerdict("canary build of unit `%s` rejected: %s" % (unit, res["stderr"][-1500:]))
    if js["verification-results"].get("encountered-vir-error"):
        hard = [e for e in parse_stderr(res["stderr"]) if e["level"] == "error" and not e["msg"].startswith("aborting")]
        raise NoVerdict("canary build of unit `%s` rejected by the verifier: %s" % (unit, hard[0]["text"] if hard else "?"))
    text = open(path, encoding="utf-8").read().split("\n")
    canary_lines = [n + 1 for n, l in enumerate(text) if "// vacuity canary" in l]
    errs = [e for e in parse_stderr(res["stderr"]) if e["level"] == "error" and e["line"] is not None]
    failed_lines = {e["line"] for e in errs if "assertion failed" in e["msg"]}
    # a canary whose function hit the resource limit is undecided, not vacuous
    rl_labels = set()
    for e in errs:
        if "rlimit" in e["msg"].lower() or "resource limit" in e["msg"].lower():
            it = item_for_line(report, e["line"])
            if it:
                rl_labels.add(it["label"])
    vacuous = []
    for ln in canary_lines:
        if ln not in failed_lines:
            it = item_for_line(report, ln)
            label = it["label"] if it else "line %d" % ln
            if label in rl_labels:
                continue
            vacuous.append("%s (line %d: %s)" % (label, ln, text[ln - 1].strip()))
    return {"planted": len(canary_lines), "failed_as_required": len(canary_lines) - len(vacuous), "vacuous": vacuous, "wall": res["wall"]}


# --------------------------------------------------------------------------
# replay / bounded crate (built lazily)


def replay_available():
    return os.path.exists(os.path.join(VERIF, "replay", "Cargo.toml"))


def run_replay(prop, tier, out_json, seed, scratch, mode="check"):
    """runs the replay crate's bounded check / counterexample search for a property (real API,
    rebuilt from /repo's current sources by cargo's own change detection)."""
    if not replay_available():
        return None
    target = os.environ.get("VERIF_TARGET_DIR") or os.path.join(VERIF, ".cache", "replay-target")
    os.makedirs(target, exist_ok=True)
    env = dict(os.environ)
    env["CARGO_NET_OFFLINE"] = "true"
    env["CARGO_TARGET_DIR"] = target
    manifest = os.path.join(VERIF, "replay", "Cargo.toml")
    if REPO != "/repo":
        # scratch copy of the crate pointing at the alternative repository
        work = os.path.join(scratch, "replay-crate")
        if not os.path.exists(work):
            shutil.copytree(os.path.join(VERIF, "replay"), work, ignore=shutil.ignore_patterns("target"))
            ct = open(os.path.join(work, "Cargo.toml")).read().replace('path = "/repo"', 'path = "%s"' % REPO)
            open(os.path.join(work, "Cargo.toml"), "w").write(ct)
        manifest = os.path.join(work, "Cargo.toml")
        env["CARGO_TARGET_DIR"] = os.path.join(scratch, "replay-target")
    build = subprocess.run(["cargo", "build", "--offline", "--release", "--quiet", "--manifest-path", manifest], capture_output=True, text=True, env=env, timeout=3600)
    if build.returncode != 0:
        raise NoVerdict("the replay crate does not build against the current /repo (API changed?): %s" % build.stderr[-2000:])
    exe = os.path.join(env["CARGO_TARGET_DIR"], "release", "verif-replay")
    cmd = [exe, mode, prop, "--tier", tier, "--seed", str(seed), "--out", out_json]
    t0 = time.time()
    p = subprocess.run(cmd, capture_output=True, text=True, env=env, timeout=7200)
    wall = time.time() - t0
    if p.returncode not in (0, 1):
        raise NoVerdict("replay binary failed for %s (rc=%s): %s" % (prop, p.returncode, (p.stderr or p.stdout)[-2500:]))
    try:
        with open(out_json) as f:
            js = json.load(f)
    except Exception as e:
        raise NoVerdict("replay crate wrote no result for %s: %s\n%s" % (prop, e, p.stderr[-1500:]))
    js["wall"] = wall
    js["cmd"] = "cargo build --release --manifest-path replay/Cargo.toml && verif-replay %s %s --tier %s --seed %s" % (mode, prop, tier, seed)
    return js


# --------------------------------------------------------------------------
# Kani


def run_kani(harnesses, scratch):
    if not harnesses:
        return []
    kdir = os.path.join(VERIF, "kani")
    work = os.path.join(scratch, "kani")
    shutil.copytree(kdir, work, ignore=shutil.ignore_patterns("target"))
    # the repository's own lock file when it is there (it is git-ignored), else the copy kept
    # with the harness crate: the dependency versions are the pinned ones either way
    if os.path.exists(os.path.join(REPO, "Cargo.lock")):
        shutil.copy(os.path.join(REPO, "Cargo.lock"), os.path.join(work, "Cargo.lock"))
    # path dependency must point at REPO
    ct = open(os.path.join(work, "Cargo.toml")).read().replace("/repo", REPO)
    open(os.path.join(work, "Cargo.toml"), "w").write(ct)
    env = dict(os.environ)
    env["CARGO_NET_OFFLINE"] = "true"
    env["CARGO_TARGET_DIR"] = os.path.join(scratch, "kani-target")
    cmd = ["cargo", "kani", "-Z", "function-contracts", "-Z", "stubbing", "--output-format", "terse"]
    for h in harnesses:
        cmd += ["--harness", h]
    t0 = time.time()
    p = subprocess.run(cmd, cwd=work, capture_output=True, text=True, env=env, timeout=3600)
    out = p.stdout + "\n" + p.stderr
    wall = time.time() - t0
    results = []
    # one section per harness: "Checking harness <path>..." ... "VERIFICATION:- <verdict>"
    sections = re.split(r"Checking harness ", out)
    seen = {}
    for sec in sections[1:]:
        name = sec.split("...")[0].strip().split("::")[-1]
        ok = "VERIFICATION:- SUCCESSFUL" in sec
        failed = "VERIFICATION:- FAILED" in sec
        m = re.search(r"\*\* (\d+) of (\d+) failed", sec)
        seen[name] = {"harness": name, "ok": ok, "failed": failed, "wall": wall / max(1, len(harnesses)), "cmd": " ".join(cmd), "tail": sec[-2500:], "checks": [m.group(1), m.group(2)] if m else None}
    for h in harnesses:
        results.append(seen.get(h, {"harness": h, "ok": False, "failed": False, "wall": 0.0, "cmd": " ".join(cmd), "tail": out[-2500:], "checks": None}))
    return results


# --------------------------------------------------------------------------
# known findings


def load_known():
    path = os.path.join(VERIF, "known_findings.txt")
    out = []
    if os.path.exists(path):
        for line in open(path):
            line = line.strip()
            if not line or line.startswith("#"):
                continue
            out.append(line)
    return out


def known_for(prop, what):
    """a finding line: `finding: property=<id> key=<key> <text>`; matches when key equals"""
    for line in load_known():
        if line.startswith("finding:") and ("property=%s " % prop) in line:
            m = re.search(r"key=(\S+)", line)
            if m and m.group(1) == what:
                return line
    return None


# --------------------------------------------------------------------------
# main check


def check(prop, tier, seed):
    if prop not in CFG.PROPS:
        log("unknown or not-applicable property %s" % prop)
        return 2
    cfg = CFG.PROPS[prop]
    t0 = time.time()
    scratch = tempfile.mkdtemp(prefix="verif-%s-" % prop)
    os.makedirs(os.path.join(VERIF, "evidence"), exist_ok=True)
    os.makedirs(os.path.join(VERIF, "replays"), exist_ok=True)
    try:
        return _check(prop, cfg, tier, seed, scratch, t0)
    except NoVerdict as e:
        log("NO-VERDICT property=%s: %s" % (prop, e))
        return 2
    except Exception as e:
        # a failure of the machinery itself is never a verdict about the code
        import traceback
        log("NO-VERDICT property=%s: internal error of the checking machinery: %s\n%s" % (prop, e, traceback.format_exc()[-1500:]))
        return 2
    finally:
        shutil.rmtree(scratch, ignore_errors=True)


def tagged(item, prop):
    p = item.get("props")
    return p is None or prop in p


def _check(prop, cfg, tier, seed, scratch, t0):
    units = cfg.get("units", [])
    unit_results = []
    deferred = []   # no-verdict reasons from the deductive part; the bounded stand-in still runs
    with concurrent.futures.ThreadPoolExecutor(max_workers=max(1, len(units))) as ex:
        futs = {u: ex.submit(verify_unit, u, scratch, tier) for u in units}
        for u in units:
            try:
                unit_results.append(futs[u].result())
            except NoVerdict as e:
                deferred.append(str(e))
    violations = []  # {obligation, text}
    other_failures = []  # failing obligations that belong to other properties only
    mine_labels = {}
    pending_rows = []
    novalue = []
    obligations = 0
    discharged = 0
    fn_rows = []
    trusted = []
    dropped_notes = []
    for an in unit_results:
        rep = an["report"]
        trusted += ["[%s] %s" % (an["unit"], t) for t in rep["trusted"]]
        if an["internal"]:
            raise NoVerdict("unit `%s`: a lemma or stub of the framework itself does not verify (not a verdict about the code): %s" % (an["unit"], an["internal"][0].get("text", an["internal"][0].get("msg"))))
        failed_labels = {f["label"] for f in an["failures"]}
        rl_labels = {f["label"] for f in an["rlimited"]}
        for it in rep["items"]:
            if not (it.get("is_fn") and it.get("has_contract") and it.get("has_body")):
                continue
            if not tagged(it, prop):
                continue
            obligations += 1
            ok = True  # settled below, once failures have been attributed
            pending_rows.append((it, an))
            fn_rows.append({"function": it["label"], "unit": an["unit"], "source_lines": it["lines"], "clauses": it["contract_clauses"], "discharged": ok, "rewrites": sorted({e["rule"] for e in it["edits"] if e["rule"] != "A"})})
        by_label = {}
        for f in an["failures"]:
            by_label.setdefault(f["label"], []).append(f)
        for label, fs in by_label.items():
            it = next((i for i in rep["items"] if i["label"] == label), None)
            if it is None:
                continue
            if it.get("loops_total", 0) > it.get("loops_annotated", 0):
                # the function now contains a loop that carries no invariant: its obligations are
                # unprovable whatever it computes -- "needs contract", not a verdict about the code
                if tagged(it, prop):
                    novalue.append("%s: the function now contains %d loop(s) but the contract template has invariants for %d; "
                                   "a loop without an invariant cannot be verified whatever it computes (the template needs one)"
                                   % (label, it["loops_total"], it["loops_annotated"]))
                continue
            # facet clauses (tagged, not composite) speak for their properties only; when none of
            # them failed, the composite / untagged failures speak for everything they cover
            precise = set()
            for f in fs:
                if f.get("tags") and not f.get("composite"):
                    precise |= set(f["tags"])
            for f in fs:
                if f.get("tags") and not f.get("composite"):
                    mine = prop in f["tags"]                       # a facet clause
                elif f.get("tags"):
                    mine = (prop in f["tags"]) and not precise     # the composite, consulted only alone
                elif f.get("safety"):
                    # arithmetic overflow / bounds: a panic -- totality (C03) where the function
                    # serves it, otherwise every property the function serves
                    props_it = it.get("props") or [q for q, c in CFG.PROPS.items() if an["unit"] in c.get("units", [])]
                    mine = (prop == "C03") if "C03" in props_it else tagged(it, prop)
                elif precise:
                    # an untagged invariant / hint / callee precondition failing next to a
                    # tagged facet of the same function is collateral of the same defect
                    mine = False
                else:
                    mine = tagged(it, prop)                        # untagged, alone: every property the function serves
                if mine:
                    # the properties this clause speaks for: its tags, or -- untagged -- all the
                    # properties the function serves
                    unit_props = [q for q, c in CFG.PROPS.items() if an["unit"] in c.get("units", [])]
                    shared = sorted(set(f.get("tags") or it.get("props") or unit_props or [prop]) & set(CFG.PROPS))
                    violations.append({"obligation": "%s: %s" % (label, f["msg"]), "unit": an["unit"], "verifier_output": f["text"], "speaks_for": shared, "explicit_tags": bool(f.get("tags"))})
                else:
                    other_failures.append("%s: %s [%s]" % (label, f["msg"], ",".join(f.get("tags") or it.get("props") or [])))
            mine_labels[label] = any(v["obligation"].startswith(label + ":") for v in violations)
        for f in an["rlimited"]:
            it = next((i for i in rep["items"] if i["label"] == f["label"]), None)
            if it is not None and tagged(it, prop):
                novalue.append("%s: %s" % (f["label"], f["msg"]))
    rl_all = {f["label"] for an in unit_results for f in an["rlimited"]}
    for row in fn_rows:
        bad = mine_labels.get(row["function"], False) or row["function"] in rl_all
        row["discharged"] = not bad
        if not bad:
            discharged += 1
    # vacuity guards
    canaries = []
    for u in [an["unit"] for an in unit_results]:
        c = verify_canary(u, scratch)
        canaries.append({"unit": u, **c})
        if c["vacuous"]:
            raise NoVerdict("vacuity guard: these functions verify even with `ensures false` (contradictory context): %s" % c["vacuous"])
    if obligations == 0 and units and not deferred:
        raise NoVerdict("no obligation generated for %s" % prop)
    # Kani
    kani_results = run_kani(cfg.get("kani", []), scratch) if cfg.get("kani") else []
    for k in kani_results:
        obligations += 1
        if k["ok"]:
            discharged += 1
        elif k["failed"]:
            violations.append({"obligation": "kani harness %s" % k["harness"], "unit": "kani", "verifier_output": k["tail"]})
        else:
            novalue.append("kani harness %s gave no verdict: %s" % (k["harness"], k["tail"][-600:]))
    # bounded stand-ins / counterexample search
    replay_res = None
    if cfg.get("replay") or violations or deferred:
        rj = os.path.join(scratch, "replay-%s.json" % prop)
        replay_res = run_replay(prop, tier, rj, seed, scratch)
    bounded_viol = []
    if replay_res:
        for v in replay_res.get("violations", []):
            bounded_viol.append(v)
    # A failed obligation that speaks for several properties says "one of these is broken".
    # When the search for a failing input finds none for THIS property, the same search is run
    # for the sibling properties: if one of them has a concrete failing input, the shared
    # obligation is attributed to it and this property is left undecided (exit 2), not alarmed.
    # Nothing is dropped when no sibling has evidence either, or when a clause of this property
    # alone fails.
    def comparable(v):
        # only clauses explicitly tagged with several properties of one family whose bounded
        # stand-ins look at different facets of the SAME runs against the SAME reference (so that
        # "no failing input for this facet" is comparable evidence)
        sf = set(v.get("speaks_for", [prop]))
        return v.get("explicit_tags") and len(sf) > 1 and any(sf <= fam for fam in CFG.EVIDENCE_FAMILIES)
    if violations and not bounded_viol and all(comparable(v) for v in violations):
        siblings = sorted({q for v in violations for q in v["speaks_for"]} - {prop})
        culprit = []
        for q in siblings:
            try:
                rq = run_replay(q, tier, os.path.join(scratch, "replay-%s.json" % q), seed, scratch)
            except NoVerdict:
                continue
            if rq and rq.get("violations"):
                culprit.append((q, rq["violations"][0]))
        if culprit:
            qs = ", ".join(q for q, _ in culprit)
            raise NoVerdict("shared obligation(s) fail (%s), each speaking for several properties %s; no failing input was found for %s while one was found for %s (e.g. %s on input %s): attributed there, %s left undecided"
                            % ("; ".join(v["obligation"] for v in violations)[:400], sorted({q for v in violations for q in v["speaks_for"]}), prop, qs, culprit[0][1].get("check"), str(culprit[0][1].get("input"))[:120], prop))
    if (novalue or deferred) and not violations and not bounded_viol:
        raise NoVerdict("; ".join(novalue + deferred))
    for d in deferred + (novalue if bounded_viol else []):
        log("note: the deductive part gave no verdict (%s); the violation below comes from the bounded stand-in with a concrete failing input" % d[:300])

    # ---- report -----------------------------------------------------------
    wall = time.time() - t0
    known_lines = []
    new_viol = []
    for v in violations:
        key = re.sub(r"\s+", "_", v["obligation"])[:160]
        k = known_for(prop, key)
        if k:
            known_lines.append((key, k))
        else:
            new_viol.append((key, v, None))
    for v in bounded_viol:
        key = v.get("key", "bounded")
        k = known_for(prop, key)
        if k:
            known_lines.append((key, k))
        else:
            # attach to an obligation failure when there is one, else stands alone
            new_viol.append((key, {"obligation": "bounded check `%s`" % v.get("check", "?"), "unit": "replay", "verifier_output": v.get("detail", "")}, v))
    evidence = build_evidence(prop, cfg, tier, seed, wall, obligations, discharged, fn_rows, unit_results, canaries, kani_results, replay_res, trusted, len(new_viol))
    with open(os.path.join(VERIF, "evidence", prop + ".json"), "w") as f:
        json.dump(evidence, f, indent=1)
    for key, line in known_lines:
        print("KNOWN-FINDING: property=%s %s" % (prop, line))
    if new_viol:
        ts = time.strftime("%Y%m%d-%H%M%S")
        cex = None
        if replay_res:
            for v in replay_res.get("violations", []):
                cex = v
                break
        path = os.path.join(VERIF, "replays", "%s-%s.json" % (prop, ts))
        with open(path, "w") as f:
            json.dump({"property": prop, "failed_obligations": [v for (_k, v, _c) in new_viol], "counterexample": cex, "how_to_replay": "./check %s --replay %s" % (prop, path)}, f, indent=1)
        if cex:
            log("FAILING INPUT (real API): check=%s input=%s detail=%s" % (cex.get("check"), cex.get("input"), str(cex.get("detail"))[:600]))
        suffix = "" if cex else " no-failing-input-found"
        for (_k, v, _c) in new_viol:
            log("FAILED OBLIGATION: %s\n%s" % (v["obligation"], v["verifier_output"][:1500]))
        print("VIOLATION property=%s replay=%s%s" % (prop, path, suffix))
        return 1
    for o in other_failures:
        log("note: obligation of another property fails (not counted for %s): %s" % (prop, o))
    print("OK property=%s obligations=%d discharged=%d wall=%.1fs" % (prop, obligations, discharged, wall))
    return 0


def build_evidence(prop, cfg, tier, seed, wall, obligations, discharged, fn_rows, unit_results, canaries, kani_results, replay_res, trusted, nviol):
    samples = [{"obligation": r["function"], "clauses": r["clauses"], "discharged": r["discharged"]} for r in fn_rows[:6]]
    cov = {
        "obligations": obligations,
        "discharged": discharged,
        "checker_cmd": "; ".join(sorted({an["cmd"].replace(os.path.dirname(an["path"]), "<scratch>") for an in unit_results})) or "cargo kani",
        "trusted_base": sorted(set(trusted)),
        "samples": samples,
        "functions_under_contract": fn_rows,
        "back_end": "Verus 0.2026.09.13 (Z3 via AIR)" + (" + Kani 0.68/CBMC 6.11" if kani_results else ""),
        "solver_time_ms": {an["unit"]: {"smt": an["smt_ms"], "total": an["total_ms"], "wall_s": round(an["wall"], 2)} for an in unit_results},
        "verus_verified_items": {an["unit"]: an["verified"] for an in unit_results},
        "vacuity_canaries": canaries,
        "extraction": {an["unit"]: {"template": os.path.relpath(an["report"]["template"], VERIF), "items": [{"label": i["label"], "file": i.get("file"), "lines": i.get("lines"), "sha256": i.get("sha256"), "rules": sorted({e["rule"] for e in i.get("edits", [])})} for i in an["report"]["items"]], "dropped": "attributes, doc comments, derives not listed in //@derive, #[cfg(test)] modules, Display/Error impls for error types, every dependency body (declared as contract stubs)"} for an in unit_results},
        "flaky_retries": {an["unit"]: an.get("flaky", []) for an in unit_results if an.get("flaky")},
        "solver_seeds_tried": {an["unit"]: an.get("stability_runs", 1) for an in unit_results},
        "explanation": "obligations = functions of /repo extracted mechanically on this run and verified against their contracts (one Verus query set per function: pre/postconditions, loop invariants, termination, overflow, bounds) plus complete Kani harnesses; bounded stand-ins are reported under `bounded` and never added to obligations/discharged",
    }
    if kani_results:
        cov["kani"] = [{"harness": k["harness"], "ok": k["ok"], "wall_s": round(k["wall"], 1)} for k in kani_results]
    if replay_res:
        cov["bounded"] = {k: replay_res.get(k) for k in ("checks", "evaluations", "distinct_nontrivial", "rule", "samples", "bounds", "bounded", "wall") if k in replay_res}
        cov["bounded"]["bounded"] = True
    level = cfg.get("level", "proof")
    if level != "proof" or obligations == 0:
        # bounded-only property: nothing deductive ran, say so instead of leaving Verus fields around
        rr = replay_res or {}
        cov = {
            "evaluations": rr.get("evaluations", 0),
            "distinct_nontrivial": rr.get("distinct_nontrivial", 0),
            "rule": rr.get("rule", ""),
            "samples": rr.get("samples", []) or ["(none)"],
            "exhaustive": False,
            "bounds": rr.get("bounds"),
            "checks": rr.get("checks"),
            "bounded": True,
            "checker_cmd": rr.get("cmd", "replay crate"),
            "trusted_base": ["the reference definition in /verif/replay/src (oracle)"],
            "explanation": "BOUNDED stand-in only: no function of this property is under contract (see DESIGN.md); nothing here is counted as proved",
        }
        if obligations > 0:
            # the level claimed stays bounded, but a fragment of the property is under contract: report it
            # separately (it does not raise the level)
            cov["deductive_fragment"] = {
                "obligations": obligations, "discharged": discharged,
                "functions_under_contract": fn_rows,
                "checker_cmd": "; ".join(sorted({an["cmd"].replace(os.path.dirname(an["path"]), "<scratch>") for an in unit_results})),
                "solver_time_ms": {an["unit"]: {"smt": an["smt_ms"], "total": an["total_ms"], "wall_s": round(an["wall"], 2)} for an in unit_results},
                "vacuity_canaries": canaries,
                "trusted_base": sorted(set(trusted)),
            }
            cov["explanation"] = "BOUNDED stand-in decides this property; in addition a FRAGMENT of it is under contract and verified (deductive_fragment: the functions listed there against their contracts) -- the level claimed is the bounded one"
    return {
        "property_id": prop,
        "tier": tier,
        "seed": seed,
        "level": level,
        "coverage": cov,
        "assumptions": sorted(set(trusted)) + cfg.get("assumptions", []) + ([cfg.get("level_note")] if cfg.get("level_note") else []),
        "wall_s": round(wall, 2),
        "violations": nviol,
    }


def replay_file(prop, path):
    """re-run a recorded counterexample against the real code"""
    with open(path) as f:
        js = json.load(f)
    cex = js.get("counterexample")
    if not cex:
        print("replay file names failed obligations only (no failing input was found):")
        for o in js.get("failed_obligations", []):
            print(" -", o["obligation"])
        # re-running the check is the replay
        return check(prop, "quick", 0)
    scratch = tempfile.mkdtemp(prefix="verif-replay-")
    try:
        rj = os.path.join(scratch, "r.json")
        os.environ["VERIF_REPLAY_INPUT"] = json.dumps(cex)
        res = run_replay(prop, "quick", rj, 0, scratch, mode="replay")
        print(json.dumps(res, indent=1))
        return 1 if res and res.get("violations") else 0
    finally:
        shutil.rmtree(scratch, ignore_errors=True)


def main():
    import argparse
    ap = argparse.ArgumentParser()
    ap.add_argument("prop")
    ap.add_argument("--tier", default=os.environ.get("VERIF_TIER", "quick"), choices=["quick", "thorough"])
    ap.add_argument("--replay")
    a = ap.parse_args()
    seed = int(os.environ.get("VERIF_SEED", "0") or 0)
    if a.replay:
        sys.exit(replay_file(a.prop, a.replay))
    sys.exit(check(a.prop, a.tier, seed))


if __name__ == "__main__":
    main()
