"""Static configuration: which units, harnesses and bounded stand-ins decide which property.

Kept as data so that MANIFEST.json, DESIGN.md and the evidence all talk about the
same things.  Only checks that exist are listed; the driver refuses anything else.
"""

# property -> configuration
#   units        Verus units (units/<name>.vrs) whose extracted functions carry contracts
#                for this property.  A function of the unit counts for the property when
#                its //@props line names it (or it has no //@props line: whole unit).
#   kani         Kani harnesses (kani/src/lib.rs) that are complete for a finite domain
#   replay       bounded stand-ins / counterexample search in the replay crate
PROPS = {
    "C06": {
        "units": ["index"],
        "kani": [],
        "replay": [],
        "title": "Objects are insertion-ordered multimaps whose key index never goes stale",
        "level": "proof",
        "level_text": "Unbounded proof, function by function, that the per-key position buckets (Indexes) keep their representation invariant and denote exactly the documented set after insert/remove/shift_up/shift_down; every bucket size and every position value.",
        "level_note": "assumed: [T]::binary_search (documented contract), <&mut Vec as IntoIterator>::into_iter == iter_mut, usize Ord is <, vstd's Vec/Seq specs; hashbrown RawTable level not yet under contract",
        "design_ref": "DESIGN.md §6.2",
    },
}

NOT_APPLICABLE = {
    "C16": "serde Serializer/Deserializer plumbing: every deciding fact (derive expansion, number formatting, serde_json's shape) lives in dependencies whose behaviour would be assumed; no contract within reach decides it (DESIGN.md §7)",
    "C17": "same as C16: the deciding case analysis is inside json-number's Serialize/Deserialize; the in-repo ingredient (duplicate keys collapse through Object::insert) is covered by C06 (DESIGN.md §7)",
    "C18": "two structural recursions whose only risk is number conversion through text inside json-number/serde_json (dependency code, would be assumed) (DESIGN.md §7)",
    "C19": "quantifies over macro_rules! token programs; neither Verus nor Kani reasons about macro expansion, and each expansion is a closed term (DESIGN.md §7)",
}
HOOK_COMMITS = []

# trusted items per unit are collected mechanically from the generated file
# (assume_specification / external_body / external_type_specification / admit / assume)
TRUST_PATTERNS = [
    r"\bassume_specification\b",
    r"#\[verifier::external_body\]",
    r"#\[verifier::external_type_specification\]",
    r"#\[verifier::external\]",
    r"\badmit\s*\(",
    r"\bassume\s*\(",
    r"\buninterp\s+spec\s+fn\b",
]

VERUS_RLIMIT = 30
VERUS_THREADS = 8
