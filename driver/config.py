"""Static configuration: which units, harnesses and bounded stand-ins decide which property.

Kept as data so that MANIFEST.json, DESIGN.md and the evidence all talk about the
same things.  Only checks that exist are listed; the driver refuses anything else.
"""

# property -> configuration
#   units        Verus units (units/<name>.vrs) whose extracted functions carry contracts
#                for this property.  A function of the unit counts for the property when
#                its //@props line names it (or it has no //@props line: whole unit).
#   kani         Kani harnesses (kani/src/lib.rs) that are complete for a finite domain
#   replay       bounded stand-ins / counterexample search in the replay crate
PROPS = {
    "C06": {
        "units": ["index", "object"],
        "kani": [],
        "replay": [],
        "title": "Objects are insertion-ordered multimaps whose key index never goes stale",
        "level": "proof",
        "level_text": "Unbounded proof, function by function: the per-key position buckets (Indexes) keep their representation invariant and denote exactly the documented set after insert/remove/shift_up/shift_down (every bucket size and position value); every Object operation (push*, insert*, remove*, remove_at, sort, from_vec, extend / collect, get_or_insert_with, get_mut_or_insert_with, get_unique_mut, canonicalize_with, the three removal iterators incl. drop half-way) is the corresponding operation on a plain ordered list, with its documented result, and re-establishes `the index agrees with the list`; every key query answers as a linear scan would.",
        "level_note": "assumed: [T]::binary_search (documented contract), <&mut Vec as IntoIterator>::into_iter == iter_mut, usize Ord is <, vstd's Vec/Seq specs; hashbrown RawTable level not yet under contract",
        "design_ref": "DESIGN.md §6.2",
    },
}

_PARSE_NOTE = "assumed: vstd specs (Vec, Seq, Option, IteratorSpec prophecy model); dependency stubs DecodedChar/Span/Meta/SmallVec/SmallString/NumberBuf::new_unchecked (contracts read off their sources; DecodedChar and Span discharged by Kani); Object::new/push (contract proved in unit object); char::to_digit / char::from_u32 (std contracts, discharged by Kani) / char ordering; Option::transpose; derived Default of CodeMap; usize is 64-bit; total input byte length fits usize. R12: in parse_str / parse_str_with / parse_utf8 / parse_utf8_with / parse_infallible / parse_infallible_with / parse_infallible_utf8 / parse_utf8_infallible_with the adapter expressions `content.chars().map(Ok)`, `chars.map(|c| c.map(DecodedChar::from_utf8))`, `chars.map(Ok)` and `chars.map(DecodedChar::from_utf8)` (closures / function items over iterators, outside Verus) are replaced by assumed stubs that yield the same characters with their UTF-8 lengths; with that, these eight entry points are proved to be `doc` on the text's characters. NOT proved: termination of the main loop of Value::parse_in (vstd's iterator measure is unconstrained after end of input; bounded stand-in), parse_slice / parse_slice_with are proved to be `doc` on slice_items(bytes) = the characters of the well-formed prefix, then one stream error if the bytes are ill-formed, with stream errors mapped to InvalidUtf8 at the same offset (Error::io_into_utf8, proved): ASSUMED there are std's contracts for core::str::from_utf8 / Utf8Error::valid_up_to (valid_len, utf8_decode uninterpreted; `the well-formed prefix is well-formed`), and two modelled expressions (R12): `valid.chars().map(Ok).chain(ill_formed)` and `io::Error::from(io::ErrorKind::InvalidData)`; `&content[..n]`, `.unwrap()` and `.map_err(Error::io_into_utf8)` are verified as written. `impl FromStr for Value` is verified as an inherent method (R10)."
_DOC = " End to end: Value::parse_in is proved (explicit-stack machine vs the recursive-descent specification `doc` = RFC 8259 `ws value ws`, by the inductive lemmas lemma_run_array / lemma_run_object) to return exactly the denoted value, fragment index and code map, or the specified error, for every input stream and option record; Value::parse / parse_with / parse_str / parse_str_with / parse_utf8 / parse_utf8_with are proved to be `doc` on the whole input from byte 0 with an empty code map."
for _pid, _title, _text in [
    ("C01", "Strict acceptance", "Unbounded proof that every lexical/structural fragment parser accepts exactly the RFC 8259 production it implements (literals, number automaton, string grammar, begin/end/separator fragments), for every input stream and every option record." + _DOC),
    ("C02", "Faithful decoding", "Unbounded proof that the number parser keeps the consumed characters byte for byte (all ASCII), that parse_hex4 computes the code unit, that the string parser returns exactly the RFC 8259 section 7 decoding (escapes, surrogate pairs), and that arrays/objects are built from their items/members in document order with duplicates kept." + _DOC),
    ("C03", "Totality, single pass", "Side obligations of the same proofs: no panic (end_fragment index valid, unwrap safe), no arithmetic overflow, every loop of the lexical layer terminates, the stream is only ever advanced (rest() shrinks by skip), no recursion in the extracted parser functions; Value::parse_in returns a value only at end of input."),
    ("C05", "Code map", "Unbounded proof of the fragment discipline: begin_fragment reserves exactly one entry at the current byte, end_fragment(i) closes entry i with span end = current byte and volume = entries since i; every leaf parser appends exactly one closed entry spanning its significant characters; containers and object members are closed at their last byte with the volume of their sub-tree." + _DOC),
    ("C07", "Error positions", "The Err branch of every contract: Unexpected carries the byte offset and character of the first item that cannot continue the production; stream errors carry the offset of the bad item; surrogate errors carry the code units and a span inside the offending escapes." + _DOC),
    ("C12", "Lenient options", "SmallString::parse_in is proved equal to the option-parametric decoder str_run for all four option records; every other contract is stated for arbitrary options and ensures options are untouched (frame)." + _DOC),
]:
    PROPS[_pid] = {"units": ["parse"], "kani": [], "replay": [], "title": _title, "level": "proof", "level_text": _text, "level_note": _PARSE_NOTE, "design_ref": "DESIGN.md §6.1"}

PROPS["C02"]["units"] = ["parse", "index", "object"]
PROPS["C02"]["level_note"] = _PARSE_NOTE + " Key lookups: every lookup of Object -- get, get_entries, get_with_index, get_entries_with_index (their four macro-generated iterators taken from the macro-expanded crate, R13), indexes_of, index_of, redundant_index_of, contains_key, get_unique, get_unique_entry -- is proved to answer as a linear scan over the entries does, in document order (`positions(list, key)`), from the representation invariant wf() that every mutating operation re-establishes (unit object), under the assumed IndexMap contract; the adapter tail `.map(IntoIterator::into_iter).unwrap_or_default()` is modelled (R12); Indexes proved (unit index). Also proved: get_unique_mut, get_or_insert_with, get_mut_or_insert_with (values handed out mutably: only that value can change, the object stays well formed). Not under contract: get_mut / ValuesMut* (unsafe transmute), iter_mut."
PROPS["C14"] = {
    "units": ["object", "order"], "kani": [], "replay": [], "title": "Equality, ordering and hashing depend only on content", "level": "proof",
    "level_text": "Frame contracts: Object's PartialEq/PartialOrd/Ord/Hash results are functions of the two entry sequences only (they delegate to Vec<Entry>), for every object and every state of the key index; together with C06 (the entry sequence is determined by the list model, not by the history) this gives history independence. The order itself (unit order): the compiler-derived `eq`, `partial_cmp`, `cmp` of Value and of Entry<K, V> are taken from the macro-expanded crate (R13) and proved to compute the recursive specifications veq / vcmp (by kind -- null < boolean < number < string < array < object --, then by content: arrays and entry lists lexicographically, an entry by key then value), and vcmp is proved to be a total order consistent with ==: reflexive, dual (cmp(b, a) is the reverse of cmp(a, b)), transitive, Equal exactly when == holds, == an equivalence (lemma_value_order_lawful, by structural induction), given that the orders of the dependency types (NumberBuf, SmallString for strings and keys) are; the derived `Hash for Value` is proved to be a function of the value, and equal values hash identically (lemma_v_hash).",
    "level_note": "assumed: Vec<Entry>'s Eq/Ord/Hash are functions of the element sequence (unit object). Unit order: the orders / equalities of the dependency types NumberBuf and SmallString are total orders consistent with their equalities (axiom_leaf_orders); std's `Vec<T>` partial_cmp / cmp are lexicographic through T's own comparison and `false < true`; `core::intrinsics::discriminant_value` is the position of the variant in the declaration of `enum Value` (R12 stub; the numbering Null..Object = 0..5 is written in the unit); Object's comparisons are its entry lists' (unit object); R10 + the knot: Value's three derived impls recurse through Vec<Value> / Object and the trait, so they are verified as inherent methods and the trait-level specification of Value is identified with veq / vcmp by two axioms. Hashing: the derived `Hash for Value` is proved to feed the hasher vhash(value) (kind, then content in a fixed order) and lemma_v_hash proves that values that are == feed it identically, given that the dependency types do (axiom_leaf_hashes) and that std's Vec feeds its length then its items; Entry's derived Hash (generic in K, V: two calls with no specification to verify against) and Object's (unit object: its entries') are assumed here",
    "design_ref": "DESIGN.md §6.6",
}

_PRINT_NOTE = ("assumed: Formatter::write_str appends its argument; <char as Display>::fmt writes the char (no width flags); vstd specs for str::chars/Vec/Seq/<&Vec>::into_iter; "
    "NumberBuf::as_str / Display write the number's (ASCII) text; SmallString derefs to its text; "
    "R12: the expression `o.iter().map(|e| (e.key.as_str(), &e.value))` (iterator adapter with a closure) is replaced by an assumed stub yielding the (key, value) pairs of the entries in order; "
    
    "THE KNOT: `impl PrintWithSize / PrecomputeSize / Print for Value` recurse through trait dispatch (generic print_array::<&Vec<Value>> calls back the impl), which Verus rejects outright; their bodies are verified as inherent methods of Value (rule R10, same text) and the trait impls the generic code calls are declared with the same contract and no body; the trait's specification functions for Value are identified with the case definitions by axioms -- partial correctness of a structural recursion, assumed. "
    "Value::count (capacity hint only) is a stub.")
PROPS["C08"] = {"units": ["print"], "kani": [], "replay": [], "title": "Compact output", "level": "proof",
    "level_text": "string_literal is proved to emit exactly the RFC 8785 escaping of every string. Whole values: the two passes of the printer (pre_compute_size, fmt_with_size) and Value::fmt_with are proved against the documented layout for every value and option record; lemma_compact proves that with the compact option record the printed text is ctext(v) -- no whitespace, `,` and `:` only, numbers verbatim, strings as their minimal-escape literal, members in the object's own order -- at every depth; Options::compact() is proved to return that record, compact_print/print_with/Display for Printed are proved, and `impl Display for Value` is proved to write ctext(self).",
    "level_note": _PRINT_NOTE + " `to_string()` / `From<Value> for String` go through std's blanket ToString (not under contract; bounded stand-in).", "design_ref": "DESIGN.md §6.3"}

PROPS["C13"] = {"units": ["print"], "kani": [], "replay": [], "title": "Pretty-print layout", "level": "proof",
    "level_text": "The generic container printers (print_array/print_object) are proved to emit exactly the documented layout for any number of items and any option record, relative to the trait contract of their items; pre_compute_*_size are proved to compute the one-line width formula and the expansion rule. Whole values: Value::pre_compute_size, Value::fmt_with_size and Value::fmt_with are proved for every value and option record (value_ptext); lemma_sizes_len proves that printing consumes exactly the sizes the first pass produced; lemma_ptext_containers gives the printed text recursively -- a container is laid out according to ITS OWN size (one line with the configured spacing, dedicated spacing when empty; or one child per line one unit deeper, closing bracket on its own line) around its children's own texts; lemma_never_expanded proves that without limits (inline, compact presets) nothing is ever expanded, so no line break is printed; lemma_width_is_len proves that a value whose size is Width(w) prints on one line of exactly w characters at any depth (the width compared with the limits is the number of characters actually printed).",
    "level_note": _PRINT_NOTE, "design_ref": "DESIGN.md §6.3"}
PROPS["C04"] = {"units": ["print"], "kani": [], "replay": [], "title": "Printing round-trips", "level": "proof",
    "level_text": "String level: string_literal emits '\"' esc_str(s) '\"' for every string (proved); the container emitters emit only the documented separators and whitespace (proved). The re-parse half is the parser's contracts (C01/C02).",
    "level_note": _PRINT_NOTE, "design_ref": "DESIGN.md §6.3"}

PROPS["C20"] = {"units": [], "engine": "kani",
    "kani": ["kindset_membership_len", "kindset_union_intersection", "kindset_with_kind_operands", "kindset_constants", "kindset_iteration", "value_kind_matches_variant"],
    "replay": [], "title": "KindSet is a faithful finite set of value kinds", "level": "proof",
    "level_text": "Complete proofs over the finite domain on the real compiled crate: six symbolic membership bits (all 64 sets), all operand pairs for | & |= &= in the four operand combinations, len/is_empty, the constants, and every interleaving of next/next_back with exact size hints (loops fully unwound, unwinding assertions on).",
    "level_note": "CBMC's model of the compiled MIR; renderings (Display/as_disjunction/as_conjunction) are not covered by Kani (fmt is prohibitively expensive under CBMC) -- see the bounded stand-in",
    "technique": "Kani/CBMC complete finite-domain harnesses on the real crate", "design_ref": "DESIGN.md §6.8"}

PROPS["C11"] = {"units": ["nav"], "kani": [], "replay": [], "title": "Code-map offsets navigate correctly", "level": "proof",
    "level_text": "Value::get_fragment, get_array_fragment, Object::get_fragment and Entry::get_fragment are proved (with termination) to return the i-th fragment of the pre-order fragment list and the overshoot past the end; the mapped iterators over arrays and objects are proved to yield the offsets index+1+sum of the preceding sub-tree sizes given a code map of the shape C05 guarantees. Key-based mapped lookups: the four iterators generated by `mapped_entries_iter!` (MappedEntries, MappedEntriesWithIndex, MappedValues, MappedValuesWithIndex) are extracted from the macro-expanded crate (rule R13) and their `next` is proved: for the next position i of the key it yields the code-map index offset + (entries skipped: 2 + sub-tree size each), the key at +1 and the value at +2, with the skipping loop proved to terminate and to keep the state invariant; `object::Indexes::next` is proved against its view. The four constructors (get_mapped_entries, get_mapped_entries_with_index, get_mapped, get_mapped_with_index) are proved to establish that state invariant from `the code map has the parse shape from offset + 1 on` with the key's positions (the index lookup expression is modelled, R12, by the assumed IndexMap contract), and the four `get_unique_mapped*` lookups are proved to return nothing / the single entry with its three code-map indexes / the first two entries as a Duplicate, for whatever the positions of the key are. Value::traverse() / Traverse::next (explicit stack) are proved to yield exactly the pre-order fragment list that get_fragment indexes, numbered 0, 1, 2, ...",
    "level_note": "assumed: vstd's slice iterator specs; payload types opaque; R13: macro-generated items are taken from `cargo +nightly rustc -- -Zunpretty=expanded` run on the current tree on every check. R12: in the constructors get_mapped_* the expression `self.indexes.get(&self.entries, key).map(IntoIterator::into_iter).unwrap_or_default()` is replaced by an assumed stub yielding the increasing positions of the key (IndexMap's contract, C06). The traversal: Value::traverse() and Traverse::next are proved to yield exactly the pre-order fragment list that get_fragment indexes, numbered from 0 (explicit stack, no recursion); R12: `self.stack.extend(v.sub_fragments().rev())` is replaced by an assumed stub (pushes the remaining sub-fragments, last first); FragmentRef::sub_fragments and the iter_mapped constructors are proved. Conversions: TryFromJson::try_from_json (index 0), the leaf conversions `()`, `bool`, `String` (kind mismatch reported at the index given, with the kind found), TryFromJsonObject's default method and the pass-through conversions Box<T>, Option<T> are proved against a trait-level relation conv_ok. Not under contract: count / volume (`filter` + `count`), TryFromJson for Vec (map + collect); proved as well: the twelve numeric leaf conversions (from the macro-expanded crate) and BTreeMap<K, V> (every member value is converted at its own code-map index, also members overridden by a later duplicate; which error is returned goes through From and is not claimed) -- bounded stand-in only",
    "design_ref": "DESIGN.md §6.5"}
PROPS["C20"]["units"] = ["nav"]

PROPS["C04"]["units"] = ["print", "roundtrip"]
PROPS["C04"]["level_text"] = ("EVERY option record (compact, inline, pretty, any custom indentation / spacing / limits), whole values, unbounded, in three machine-checked links over the SAME specification files: "
    "(1) unit print: printing `v` under options `o` (`Printed`'s Display, print_with / pretty_print / inline_print / compact_print, `impl Display for Value`) writes value_ptext(v, o) (the documented layout, C13), and lemma_ptext_is_padded: value_ptext(v, o) == ptext(p) for the padded value p = vpad(v, o) with erase(p) == view of v and ONLY whitespace (spaces, tabs, line feeds) in p's slots -- the slots being exactly the places where RFC 8259 allows whitespace (inc/pad_spec.vrs); "
    "(2) unit roundtrip (pure lemmas over the parser's and the printer's shared vocabularies): lemma_pdoc_roundtrip -- for every padded value p with whitespace-only slots whose numbers are JSON numbers, every assignment of byte lengths, every position, code map and parser option record, doc(items of ptext(p)) is Ok with value erase(p) (induction over arrays and objects: lemma_pval_reads / lemma_pitems_reads / lemma_pmembers_reads; leading whitespace: lemma_val_skip_ws; numbers: lemma_number_reads; strings: lemma_str_reads -- decoding ANY input that starts with the printed literal gives the string back); the compact case (lemma_doc_roundtrip over jtext, with lemma_ctext_is_jtext on the printer side) is kept as an independent second proof; "
    "(3) unit parse: Value::parse_str(s) is doc(utf8_items(s), ..) and returns a value whose view is doc's value. "
    "So formatting options only ever change insignificant whitespace, and parse(print(v, o)) denotes v, for all values and all option records.")
PROPS["C04"]["level_note"] = _PRINT_NOTE + " Hypotheses of the round-trip theorem: the value's numbers are JSON numbers and ASCII (what json-number's NumberBuf holds; the parser's own numbers are, by its contract). The composition of the three links is by reading (they are stated over the same include files), not a single Verus theorem: the units have different stubs for the payload types."

# bounded stand-ins (replay crate) run for every claimed property: they cover what is outside the
# verifier's reach and supply failing inputs for VIOLATION lines
for _pid in list(PROPS):
    PROPS[_pid]["replay"] = ["bounded"]
_BOUNDED_NOTE = " Bounded stand-in (replay crate, real API vs an independent reference written from the RFCs/property text): labelled bounded, never counted as proved."
for _pid in PROPS:
    PROPS[_pid]["level_note"] += _BOUNDED_NOTE
PROPS["C15"] = {"units": ["nav"], "kani": [], "replay": ["bounded"], "engine": "replay", "title": "Unordered equality", "level": "exploration",
    "level_text": "BOUNDED (the level claimed). A fragment is under contract: the value-level dispatcher `impl UnorderedPartialEq for Value` is verified (unit nav, as an inherent method) to require equal kinds, equal scalars, and to defer arrays / objects to their own comparisons, which are ASSUMED there. The deciding part: Object::unordered_eq is two nested all/any closure chains over custom iterators (no vstd spec, closures calling back into trait methods), outside Verus; Kani cannot take hashbrown-backed objects at useful sizes. All pairs of objects with <= 3 (thorough: 4) entries over 2 keys and 2 values, one nesting level, compared with the multiset definition.",
    "level_note": "bounded exploration, not a proof; oracle = native multiset matching in replay/src/checks_object.rs",
    "technique": "bounded exhaustive comparison with a reference definition (stand-in: the Vec / Object comparisons are closure chains outside the verifier); the value-level dispatcher alone is under contract (Verus)", "design_ref": "DESIGN.md §6.7"}
PROPS["C09"] = {"units": ["object", "print", "nav"], "kani": [], "replay": ["bounded"], "title": "Canonicalization conforms to RFC 8785", "level": "proof",
    "level_text": "Proved: Object::sort re-establishes the index invariant and orders entries by the comparator it is given (permutation preserved); string_literal emits exactly the RFC 8785 minimal escaping; Value::canonicalize_with (unit nav, with termination) replaces every number at every depth of nested arrays by the ECMAScript rendering (ryu-js, by contract) of the double nearest to its decimal value (std's correctly rounded parse, by contract), hands every object to Object::canonicalize_with and changes nothing else; Object::canonicalize_with (unit object) canonicalizes every member value first, then sorts -- the result is a permutation (duplicates kept) of the old members with canonicalized values, ordered by key under the comparator's key order -- and rebuilds the index (wf). The UTF-16 comparison itself (the comparator closure over encode_utf16 iterators) is modelled (R12) and decided by the bounded stand-in, as are the number renderings. The UTF-16 member order and the ES6 number rendering are decided only by the bounded stand-in (keys separating UTF-16 from code-point order, the RFC 8785 number table).",
    "level_note": "number clause: decimal -> nearest double (std `str::parse::<f64>`) and double -> text (ryu-js `format_finite`) are dependency behaviour, uninterpreted (nearest_double, es_render); the code is verified to combine them; the bounded stand-in compares with an ECMAScript reference over correctly rounded doubles (12,000 long decimals, halfway points); R12 in Object::canonicalize_with: `self.iter_mut()` (custom adapter whose closure hands out `&mut` borrows) is replaced by an assumed stub yielding every entry's key and mutable value in order, and the comparator body (`encode_utf16` iterator comparison + `then_with` closure) by an assumed stub returning canon_entry_cmp with `the keys decide first`; Value- and Object-level contracts refer to each other through uninterpreted relations (each proved in its own unit; termination of the mutual recursion is proved on the Value side only); `for item in a` over &mut Vec uses an assumed std contract (IntoIterator for &mut Vec)" + _BOUNDED_NOTE,
    "design_ref": "DESIGN.md §6.4"}
PROPS["C10"] = {"units": ["object", "nav"], "kani": [], "replay": ["bounded"], "title": "Canonical form is idempotent, blind to member order", "level": "proof",
    "level_text": "Proved: after the index rebuild used by sort/canonicalization the object is well formed again (every key query answers as a linear scan would); Value::canonicalize_with (unit nav, with termination) changes nothing but number spellings and objects: kinds, booleans, strings, nulls, array lengths and item order are preserved, every array item is visited (canon_rel); Object::canonicalize_with (unit object) keeps every member (same keys, canonicalized values, duplicates kept), only reorders them, and leaves the object well formed -- fully queryable by key. Idempotence and blindness to member order, spacing and number spelling are decided by the bounded stand-in.",
    "level_note": "as C09" + _BOUNDED_NOTE, "design_ref": "DESIGN.md §6.4"}


# the deciding method per check (MANIFEST `technique`)
_V = "contract-based deductive verification (Verus) of functions extracted mechanically from /repo on every run"
_B = "; bounded stand-in (replay crate vs an independent reference, labelled bounded) for "
for _pid, _t in {
    "C01": _V + ": every parser function against RFC 8259 specification functions, Value::parse_in == doc, all twelve entry points and FromStr == doc on the whole input (parse_slice*: on the characters of the well-formed prefix, by std's from_utf8 contract)" + _B + "termination of the main loop; UTF-8 validation itself (std) is exercised on ill-formed byte strings",
    "C02": _V + ": value clauses of the parser contracts through every entry point, Indexes and Object queries == linear scan" + _B + "the assumed layers (IndexMap, std UTF-8 decoding of byte slices)",
    "C03": _V + ": no panic / overflow / bounds / termination side obligations of every parser function" + _B + "termination of the main loop and stack use (deep documents in child processes with a 256 KiB stack)",
    "C04": _V + " and pure lemmas: printer under any option record == text of the padded value (whitespace only where RFC 8259 allows it); doc(any such text) == the value; parse_str == doc" + _B + "to_string end to end (std blanket impl) over the option records of the quantifier",
    "C05": _V + ": code-map clauses (cm_begin / cm_end) of every fragment parser, final code map of Value::parse_in and of every entry point == doc's" + _B + "byte offsets after multi-byte and ill-formed UTF-8 (std decoding assumed)",
    "C06": _V + ": list-model contracts on Indexes and every Object operation incl. the removal iterators" + _B + "the assumed IndexMap layer (operation histories vs the list model)",
    "C07": _V + ": Err branches of the parser contracts, error of Value::parse_in and of every entry point == doc's, ill-formed UTF-8 == InvalidUtf8 at the offset of the well-formed prefix's end (io_into_utf8)" + _B + "the offset arithmetic of std's UTF-8 decoding (assumed)",
    "C08": _V + ": string_literal == RFC 8785 escaping, Value-level printer == ctext under the compact record, Display for Value" + _B + "to_string / String::from and every Unicode scalar",
    "C09": _V + " for Object::sort, string escaping and Value::canonicalize_with (every number at every array depth, objects handed on, nothing else touched) and Object::canonicalize_with (children first, then a key-ordered permutation, index rebuilt)" + _B + "the UTF-16 comparison itself (modelled comparator) and the RFC 8785 number table (dependency)",
    "C10": _V + " for the index rebuild (queryable afterwards) and Value::canonicalize_with and Object::canonicalize_with (`changes nothing else`, queryable afterwards)" + _B + "idempotence and blindness to order / spelling / spacing (relations between executions)",
    "C11": _V + ": get_fragment family, array/object IterMapped::next, the four macro-generated keyed iterators (from the macro-expanded crate), their constructors, the unique lookups, Traverse (== the pre-order fragment list), the leaf and pass-through TryFromJson conversions" + _B + "count / volume, TryFromJson for Vec",
    "C12": _V + ": SmallString::parse_in == option-parametric str_run, options frame, through doc(.., options), the option record reaching the parser unchanged through every *_with entry point" + _B + "lenient decoding over byte slices (std decoding assumed)",
    "C13": _V + ": generic container printers == documented layout, Value-level printer, width == printed length, no line break without limits" + _B + "to_string end to end",
    "C14": _V + ": frame contracts (Object's Eq/Ord/Hash read the entry list only); the derived eq / partial_cmp / cmp of Value and Entry (from the macro-expanded crate) == a recursive specification proved to be a total order consistent with ==; derived Hash for Value == vhash, equal values hash identically" + _B + "the dependency types' own orders and hashes, history independence end to end",
}.items():
    PROPS[_pid]["technique"] = _t

NOT_APPLICABLE = {
    "C16": "serde Serializer/Deserializer plumbing: every deciding fact (derive expansion, number formatting, serde_json's shape) lives in dependencies whose behaviour would be assumed; no contract within reach decides it (DESIGN.md §7)",
    "C17": "same as C16: the deciding case analysis is inside json-number's Serialize/Deserialize; the in-repo ingredient (duplicate keys collapse through Object::insert) is covered by C06 (DESIGN.md §7)",
    "C18": "two structural recursions whose only risk is number conversion through text inside json-number/serde_json (dependency code, would be assumed) (DESIGN.md §7)",
    "C19": "quantifies over macro_rules! token programs; neither Verus nor Kani reasons about macro expansion, and each expansion is a closed term (DESIGN.md §7)",
}
HOOK_COMMITS = []

# Families of properties whose bounded stand-ins examine different facets (acceptance, value, code
# map, error, options) of the same executions against the same reference parser: for an obligation
# explicitly tagged with several of them, a failing input found for one facet and none for another is
# comparable evidence (driver: attribution by evidence).  No other obligations are ever deflected.
EVIDENCE_FAMILIES = [{"C01", "C02", "C05", "C07", "C12"}]

# trusted items per unit are collected mechanically from the generated file
# (assume_specification / external_body / external_type_specification / admit / assume)
TRUST_PATTERNS = [
    r"\bassume_specification\b",
    r"#\[verifier::external_body\]",
    r"#\[verifier::external_type_specification\]",
    r"#\[verifier::external\]",
    r"\badmit\s*\(",
    r"\bassume\s*\(",
    r"\buninterp\s+spec\s+fn\b",
]

VERUS_RLIMIT = 60
# wall-clock guard per Verus run (a unit takes 5-90 s; a solver that diverges without consuming rlimit
# must end in `no verdict`, not in a hung check)
VERUS_TIMEOUT_S = 600
CANARY_RLIMIT = 8
VERUS_THREADS = 8
