#!/usr/bin/env python3
"""Regenerates MANIFEST.json from driver/config.py (single source of truth)."""
import json, os, sys
HERE = os.path.dirname(os.path.abspath(__file__))
sys.path.insert(0, HERE)
import config as CFG

NA = getattr(CFG, "NOT_APPLICABLE", {})
checks = []
for pid in sorted(CFG.PROPS):
    c = CFG.PROPS[pid]
    checks.append({
        "property_id": pid,
        "quick_cmd": "./check %s --tier quick" % pid,
        "thorough_cmd": "./check %s --tier thorough" % pid,
        "evidence_file": "/verif/evidence/%s.json" % pid,
        "replay_cmd_template": "./check %s --replay {path}" % pid,
        "engine": c.get("engine", "verus"),
        "level_claimed": {"category": c.get("level", "proof"), "text": c["level_text"], "design_ref": c.get("design_ref", "DESIGN.md §6")},
        "level_note": c["level_note"],
        "technique": c.get("technique", "contract-based deductive verification (Verus) of functions extracted mechanically from /repo"),
    })
all_ids = ["C%02d" % i for i in range(1, 21)]
na = []
for pid in all_ids:
    if pid in CFG.PROPS:
        continue
    na.append({"property_id": pid, "reason": NA.get(pid, "check not built yet (work in progress in this session; see DESIGN.md §11 for the order of work)")})
m = {
    "version": 1,
    "setup_cmd": "true",
    "hooks": {"guard": "json_syntax_verif", "enable": "RUSTFLAGS='--cfg json_syntax_verif' (no hook is compiled into /repo at present; the deductive checks read sources)", "baseline_off_cmd": "cd /repo && cargo test --workspace --no-fail-fast --offline", "source_commits": getattr(CFG, "HOOK_COMMITS", []), "add_only": True},
    "engines": [
        {"name": "verus", "path": "/verif/units", "serves_properties": sorted(p for p in CFG.PROPS if CFG.PROPS[p].get("units")), "kind_free_text": "Verus 0.2026.09.13 on functions extracted mechanically from /repo each run (extract/extract.py), contracts in units/*.vrs"},
        {"name": "kani", "path": "/verif/kani", "serves_properties": sorted(p for p in CFG.PROPS if CFG.PROPS[p].get("kani")), "kind_free_text": "Kani 0.68 / CBMC 6.11 loop-free or fully unwound harnesses over finite domains on the real crate"},
        {"name": "replay", "path": "/verif/replay", "serves_properties": sorted(p for p in CFG.PROPS if CFG.PROPS[p].get("replay")), "kind_free_text": "bounded stand-ins and counterexample search against the real API (labelled bounded, never counted as proved)"},
    ],
    "checks": checks,
    "not_applicable": na,
    "notes": "See DESIGN.md. exit 2 from ./check means no verdict (lost anchor, construct outside the verifier's reach, rlimit), never an alarm.",
}
with open(os.path.join(os.path.dirname(HERE), "MANIFEST.json"), "w") as f:
    json.dump(m, f, indent=1)
print("MANIFEST.json: %d checks, %d not applicable" % (len(checks), len(na)))
