#!/bin/sh
# background job (vp run --with-repo): the detection diagonal alone (every seed x the check of its own property)
cd "$(dirname "$0")"
python3 matrix.py --workers 6 --diagonal
