#!/bin/bash
# ./confirm2.sh <seed-dir> : confirm a mutant (patch.diff, demo.rs, notes.md) in a scratch worktree and store it under seeded/
S=$(realpath $1); ID=$(basename $S); P=${ID%%-*}
WT=/tmp/wt-confirm
[ -d $WT ] || git -C /repo worktree add -f $WT HEAD -q --detach
cd $WT || exit 2
export CARGO_TARGET_DIR=$WT/target
git checkout -q -- . ; rm -f tests/verif_seed_demo.rs
git apply --check $S/patch.diff || { echo "NOT-CONFIRMED $ID: patch does not apply"; exit 2; }
git apply $S/patch.diff
cp $S/demo.rs tests/verif_seed_demo.rs
existing=$(cargo test --offline --no-fail-fast --test parse --test print --test macro --lib 2>&1 | grep -E "^test result" | tr '\n' ' ')
demo_mut=$(cargo test --offline --features canonicalize,serde --test verif_seed_demo 2>&1 | grep -E "^test result|error\[" | tr '\n' ' ')
git checkout -q -- src
demo_orig=$(cargo test --offline --features canonicalize,serde --test verif_seed_demo 2>&1 | grep -E "^test result|error\[" | tr '\n' ' ')
rm -f tests/verif_seed_demo.rs
echo "existing(with mutation): $existing"; echo "demo with mutation: $demo_mut"; echo "demo on original: $demo_orig"
ok=1
echo "$existing" | grep -q "FAILED" && ok=0
echo "$demo_mut" | grep -q "FAILED" || ok=0
echo "$demo_orig" | grep -q "FAILED" && ok=0
echo "$demo_orig" | grep -q "ok\." || ok=0
if [ $ok = 1 ]; then
  mkdir -p /verif/seeded/$ID
  cp $S/patch.diff $S/demo.rs $S/notes.md /verif/seeded/$ID/
  python3 - "$P" "$ID" "$existing" "$demo_mut" "$demo_orig" <<'PY'
import json,sys
P,ID,ex,dm,do=sys.argv[1:6]
json.dump({"id":ID,"breaks_property":P,"round":2,"needs_to_manifest":"see notes.md (written by the independent sub-agent that produced the change; asked for SUBTLE defects)","confirmed":{"existing_suite_with_change":ex.strip(),"demo_with_change":dm.strip(),"demo_without_change":do.strip(),"how":"confirm2.sh in a scratch worktree of /repo: git apply patch; cargo test --offline (lib, parse, print, macro); demo copied to tests/ and run with and without the change"},"detected_by":[]},open('/verif/seeded/%s/meta.json'%ID,'w'),indent=1)
PY
  echo CONFIRMED $ID
else
  echo NOT-CONFIRMED $ID
fi
