"""Minimal Rust tokenizer used by the mechanical extractor.

Only what is needed to find item boundaries and anchors without being fooled by
strings, chars, lifetimes and comments.  Offsets are indices into the Python
string (code points).
"""
from collections import namedtuple

Tok = namedtuple("Tok", "kind text start end")
# kinds: ws comment ident lifetime char string number punct

IDENT_START = set("abcdefghijklmnopqrstuvwxyzABCDEFGHIJKLMNOPQRSTUVWXYZ_")
IDENT_CONT = IDENT_START | set("0123456789")


class LexError(Exception):
    pass


def tokenize(src):
    toks = []
    i = 0
    n = len(src)
    while i < n:
        c = src[i]
        if c in " \t\r\n":
            j = i + 1
            while j < n and src[j] in " \t\r\n":
                j += 1
            toks.append(Tok("ws", src[i:j], i, j))
            i = j
        elif src.startswith("//", i):
            j = src.find("\n", i)
            if j < 0:
                j = n
            toks.append(Tok("comment", src[i:j], i, j))
            i = j
        elif src.startswith("/*", i):
            depth = 1
            j = i + 2
            while j < n and depth > 0:
                if src.startswith("/*", j):
                    depth += 1
                    j += 2
                elif src.startswith("*/", j):
                    depth -= 1
                    j += 2
                else:
                    j += 1
            if depth:
                raise LexError("unterminated block comment at %d" % i)
            toks.append(Tok("comment", src[i:j], i, j))
            i = j
        elif c == '"' or (c == "b" and src.startswith('b"', i)):
            j = i + (2 if c == "b" else 1)
            while j < n and src[j] != '"':
                if src[j] == "\\":
                    j += 1
                j += 1
            if j >= n:
                raise LexError("unterminated string at %d" % i)
            j += 1
            toks.append(Tok("string", src[i:j], i, j))
            i = j
        elif c in "rb" and _raw_string_start(src, i) is not None:
            hashes, body_start = _raw_string_start(src, i)
            close = '"' + "#" * hashes
            j = src.find(close, body_start)
            if j < 0:
                raise LexError("unterminated raw string at %d" % i)
            j += len(close)
            toks.append(Tok("string", src[i:j], i, j))
            i = j
        elif c == "'":
            # char literal or lifetime
            if i + 1 < n and src[i + 1] == "\\":
                j = i + 2
                # escaped char: scan to closing quote
                while j < n and src[j] != "'":
                    j += 1
                j += 1
                # '\'' special case
                if src[i + 2] == "'" and j < n and src[j] == "'":
                    j += 1
                toks.append(Tok("char", src[i:j], i, j))
                i = j
            elif i + 2 < n and src[i + 2] == "'":
                toks.append(Tok("char", src[i:i + 3], i, i + 3))
                i += 3
            else:
                j = i + 1
                while j < n and src[j] in IDENT_CONT:
                    j += 1
                toks.append(Tok("lifetime", src[i:j], i, j))
                i = j
        elif c in IDENT_START:
            j = i + 1
            while j < n and src[j] in IDENT_CONT:
                j += 1
            toks.append(Tok("ident", src[i:j], i, j))
            i = j
        elif c.isdigit():
            j = i + 1
            while j < n and (src[j] in IDENT_CONT or (src[j] == "." and j + 1 < n and src[j + 1].isdigit() and src[j - 1] != ".")):
                j += 1
            toks.append(Tok("number", src[i:j], i, j))
            i = j
        else:
            toks.append(Tok("punct", c, i, i + 1))
            i += 1
    return toks


def _raw_string_start(src, i):
    j = i
    if src[j] == "b":
        j += 1
    if j >= len(src) or src[j] != "r":
        return None
    j += 1
    h = 0
    while j < len(src) and src[j] == "#":
        h += 1
        j += 1
    if j < len(src) and src[j] == '"':
        return h, j + 1
    return None


def significant(toks):
    """tokens that are neither whitespace nor comments"""
    return [t for t in toks if t.kind not in ("ws", "comment")]


OPEN = {"(": ")", "[": "]", "{": "}"}
CLOSE = {")": "(", "]": "[", "}": "{"}


def match_close(toks, k):
    """toks[k] is an opening bracket token; return index of matching close."""
    assert toks[k].kind == "punct" and toks[k].text in OPEN, toks[k]
    depth = 0
    for j in range(k, len(toks)):
        t = toks[j]
        if t.kind != "punct":
            continue
        if t.text in OPEN:
            depth += 1
        elif t.text in CLOSE:
            depth -= 1
            if depth == 0:
                return j
    raise LexError("unbalanced bracket at %d" % toks[k].start)


def norm(text):
    """normalize a fragment of Rust to its significant token texts"""
    return [t.text for t in significant(tokenize(text))]
