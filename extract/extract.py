#!/usr/bin/env python3
"""Mechanical extractor: builds one self-contained Verus file per unit from /repo's
current sources and a contract template (units/<unit>.vrs).

The template is Verus text (spec vocabulary, lemmas, dependency stubs) in which
`//@` directives ask for real items of the repository to be copied in, byte for
byte, with contract text spliced at anchors.  The only changes made to copied
text are the logged edits:

  A   annotation insertion (requires/ensures/invariant/decreases/proof/ghost,
      named return value, verifier attributes)
  R1  `break <expr>` -> `return <expr>` for a `loop` in tail position of the fn
  R2  Option::map / and_then / Result::map_err(..)? with a closure -> `match`
  R3  item declared inside a fn body removed there (emitted at module level by
      its own //@item directive)
  R4  `self.last();` in Drop::drop -> explicit loop over next()
  R5  `for (i, x) in E.enumerate()` -> counter variable
  R6  attributes / doc comments dropped, `#[derive]` filtered, path prefixes
      re-rooted by an explicit //@subst
  R7  closure given parameter types / braces so that it can carry a contract
  R8  struct fields made `pub` (visibility only)
  R11 `for` loop desugared into `loop { match it.next() .. }` (Rust reference), enumerate counter explicit
  R9  locspan `Meta::map(f)` inlined (`Meta(f(self.0), self.1)`) and beta-reduced
  R14 implicit drop of a named local at the end of a fn body made explicit (tail bound, `x.drop()`)
  R15 an expression wrapped in a block that binds its value to a local and yields it (so that a proof
      hint can name it)

Anything else that cannot be handled raises ExtractError (driver exit 2); the
extractor never edits code to make it fit.
"""
import hashlib
import json
import os
import re
import sys

sys.path.insert(0, os.path.dirname(os.path.abspath(__file__)))
from rustlex import tokenize, significant, match_close, Tok, OPEN, CLOSE, LexError  # noqa


class ExtractError(Exception):
    pass


# --------------------------------------------------------------------------
# source files and item lookup


EXPANDED = "<expanded>"
_EXPANDED_CACHE = {}


def expand_crate(repo):
    """R13: the crate after macro expansion (`rustc -Zunpretty=expanded` through cargo, nightly
    toolchain, offline), produced on every run from a scratch copy of the repository's current
    working tree.  Used only for items that `macro_rules!` invocations generate; everything else
    is taken from the source files themselves."""
    if repo in _EXPANDED_CACHE:
        return _EXPANDED_CACHE[repo]
    import shutil, subprocess, tempfile
    work = tempfile.mkdtemp(prefix="verif-expand-")
    try:
        dst = os.path.join(work, "crate")
        shutil.copytree(repo, dst, ignore=shutil.ignore_patterns("target", ".git"))
        cache = os.environ.get("VERIF_EXPAND_TARGET") or os.path.join(os.path.dirname(os.path.dirname(os.path.abspath(__file__))), ".cache", "expand-target")
        os.makedirs(cache, exist_ok=True)
        env = dict(os.environ, CARGO_TARGET_DIR=cache, CARGO_NET_OFFLINE="true")
        p = subprocess.run(["cargo", "+nightly", "rustc", "--offline", "--lib", "--", "-Zunpretty=expanded"], cwd=dst, capture_output=True, text=True, env=env, timeout=1200)
        if p.returncode != 0 or not p.stdout.strip():
            raise ExtractError("macro expansion of the crate failed (cargo +nightly rustc -- -Zunpretty=expanded): %s" % p.stderr[-800:])
        _EXPANDED_CACHE[repo] = p.stdout
        return p.stdout
    finally:
        shutil.rmtree(work, ignore_errors=True)


class Source:
    def __init__(self, repo, rel):
        self.rel = rel
        self.path = os.path.join(repo, rel)
        if rel == EXPANDED:
            self.text = expand_crate(repo)
            try:
                self.toks = tokenize(self.text)
            except LexError as e:
                raise ExtractError("cannot tokenize the expanded crate: %s" % e)
            return
        try:
            with open(self.path, encoding="utf-8") as f:
                self.text = f.read()
        except OSError as e:
            raise ExtractError("cannot read %s: %s" % (rel, e))
        try:
            self.toks = tokenize(self.text)
        except LexError as e:
            raise ExtractError("cannot tokenize %s: %s" % (rel, e))

    def line_of(self, off):
        return self.text.count("\n", 0, off) + 1


def sig_indices(toks, lo, hi):
    return [k for k in range(lo, hi) if toks[k].kind not in ("ws", "comment")]


def split_items(toks, lo, hi):
    """Split token range [lo,hi) (the inside of a container) into items.
    Returns list of (first_tok, last_tok_exclusive)."""
    items = []
    k = lo
    start = None
    depth = 0
    while k < hi:
        t = toks[k]
        if t.kind in ("ws", "comment") and start is None:
            # doc comments belong to the item that follows; keep them attached
            if t.kind == "comment" and t.text.startswith("///"):
                start = k
            k += 1
            continue
        if start is None:
            start = k
        if t.kind == "punct":
            if t.text in OPEN:
                j = match_close(toks, k)
                if t.text == "{" and depth == 0 and not _is_attr_brace(toks, k):
                    # an item/statement ending with a block -- unless followed by
                    # tokens that continue the expression (`;`, `.`, `?`, else)
                    nxt = _next_sig(toks, j + 1, hi)
                    if nxt is not None and toks[nxt].kind == "punct" and toks[nxt].text in (";",):
                        items.append((start, nxt + 1))
                        k = nxt + 1
                        start = None
                        continue
                    if nxt is not None and ((toks[nxt].kind == "ident" and toks[nxt].text == "else") or (toks[nxt].kind == "punct" and toks[nxt].text in (".", "?"))):
                        k = j + 1
                        continue
                    items.append((start, j + 1))
                    k = j + 1
                    start = None
                    continue
                k = j + 1
                continue
            if t.text == ";":
                items.append((start, k + 1))
                start = None
        k += 1
    if start is not None and sig_indices(toks, start, hi):
        items.append((start, hi))
    return items


def _is_attr_brace(toks, k):
    return False


def _next_sig(toks, k, hi):
    while k < hi:
        if toks[k].kind not in ("ws", "comment"):
            return k
        k += 1
    return None


def header_start(toks, a, b):
    """index of first significant token of the item that is not part of an
    attribute (#[...] / #![...])"""
    k = a
    while k < b:
        t = toks[k]
        if t.kind in ("ws", "comment"):
            k += 1
            continue
        if t.kind == "punct" and t.text == "#":
            j = _next_sig(toks, k + 1, b)
            if j is not None and toks[j].text == "!":
                j = _next_sig(toks, j + 1, b)
            if j is not None and toks[j].text == "[":
                k = match_close(toks, j) + 1
                continue
        return k
    return b


def header_texts(toks, a, b):
    """significant token texts of the header (up to the first `{` or `;` at
    depth 0), visibility stripped"""
    k = header_start(toks, a, b)
    out = []
    depth = 0
    while k < b:
        t = toks[k]
        if t.kind in ("ws", "comment"):
            k += 1
            continue
        if t.kind == "punct":
            if t.text in ("(", "["):
                depth += 1
            elif t.text in (")", "]"):
                depth -= 1
            elif t.text in ("{", ";") and depth == 0:
                break
        out.append(t.text)
        k += 1
    # strip visibility
    if out[:1] == ["pub"]:
        out = out[1:]
        if out[:1] == ["("]:
            j = out.index(")")
            out = out[j + 1:]
    return out


def find_in(src, lo, hi, pattern, must_contain=()):
    """`must_contain`: headers of members (e.g. `fn next`) that the wanted container must hold --
    used only to choose among several containers with the same header (two `impl X` blocks)"""
    want = [t.text for t in significant(tokenize(pattern))]
    if want[:1] == ["pub"]:
        want = want[1:]
        if want[:1] == ["("]:
            want = want[want.index(")") + 1:]
    hits = []
    for (a, b) in split_items(src.toks, lo, hi):
        h = header_texts(src.toks, a, b)
        if h[:len(want)] == want:
            # next header token must not continue an identifier path (avoid
            # `fn insert` matching `fn insert_front`): token equality already
            # guarantees that.
            hits.append((a, b))
    if not hits:
        raise ExtractError("lost anchor: item `%s` not found in %s" % (pattern, src.rel))
    if len(hits) > 1 and must_contain:
        keep = []
        for (a, b) in hits:
            bb = body_braces(src, a, b)
            if bb is None:
                continue
            try:
                for m in must_contain:
                    find_in(src, bb[0] + 1, bb[1], m)
                keep.append((a, b))
            except ExtractError:
                pass
        if keep:
            hits = keep
    if len(hits) > 1:
        raise ExtractError("ambiguous anchor: item `%s` matches %d items in %s" % (pattern, len(hits), src.rel))
    return hits[0]


def body_braces(src, a, b):
    """for an item [a,b): index of its body `{` (first `{` at paren depth 0 after
    the header start) and the matching `}`; None if it ends with `;`"""
    toks = src.toks
    k = header_start(toks, a, b)
    depth = 0
    while k < b:
        t = toks[k]
        if t.kind == "punct":
            if t.text in ("(", "["):
                depth += 1
            elif t.text in (")", "]"):
                depth -= 1
            elif t.text == "{" and depth == 0:
                return k, match_close(toks, k)
            elif t.text == ";" and depth == 0:
                return None
        k += 1
    return None


def locate(src, path, must_contain=()):
    """path: `A / B / C` -- descend through containers"""
    comps = [c.strip() for c in path.split(" / ")]
    lo, hi = 0, len(src.toks)
    a = b = None
    for n, comp in enumerate(comps):
        a, b = find_in(src, lo, hi, comp, must_contain if n + 1 == len(comps) else ())
        if n + 1 < len(comps):
            bb = body_braces(src, a, b)
            if bb is None:
                raise ExtractError("item `%s` in %s has no body" % (comp, src.rel))
            lo, hi = bb[0] + 1, bb[1]
    return a, b


# --------------------------------------------------------------------------
# edits


class Edits:
    """edits over the character range of one item"""

    def __init__(self, src, a, b):
        self.src = src
        self.lo = src.toks[a].start
        self.hi = src.toks[b - 1].end
        self.a, self.b = a, b
        self.ed = []  # (start, end, new, tag, note)

    def replace(self, s, e, new, tag, note=""):
        assert self.lo <= s <= e <= self.hi
        self.ed.append((s, e, new, tag, note))

    def insert(self, s, new, tag="A", note=""):
        self.replace(s, s, new, tag, note)

    def render(self):
        # stable order: by start, inserts (s==e) at the same position keep
        # the order in which they were requested
        eds = sorted(enumerate(self.ed), key=lambda x: (x[1][0], x[1][1], x[0]))
        out = []
        pos = self.lo
        log = []
        for _, (s, e, new, tag, note) in eds:
            if s < pos:
                raise ExtractError("overlapping edits in %s near line %d (%s)" % (self.src.rel, self.src.line_of(s), tag))
            out.append(self.src.text[pos:s])
            out.append(new)
            log.append({"rule": tag, "line": self.src.line_of(s), "before": self.src.text[s:e], "after": new if tag != "A" else new[:400], "note": note})
            pos = e
        out.append(self.src.text[pos:self.hi])
        return "".join(out), log


ALLOWED_DERIVES = {"Clone", "Copy", "PartialEq", "Eq", "Debug", "Default", "PartialOrd", "Ord", "Hash"}


def strip_head(ed, src, a, b, keep_derive):
    """R6: drop attributes and doc comments in front of the item; emit a
    filtered derive if requested (only names present in the source derive)"""
    toks = src.toks
    hs = header_start(toks, a, b)
    derived = set()
    for k in range(a, hs):
        if toks[k].kind == "ident" and toks[k].text == "derive":
            j = _next_sig(toks, k + 1, hs)
            if j is not None and toks[j].text == "(":
                c = match_close(toks, j)
                derived |= {t.text for t in toks[j + 1:c] if t.kind == "ident"}
    if hs > a:
        head_s, head_e = toks[a].start, toks[hs].start
        new = ""
        if keep_derive:
            missing = [d for d in keep_derive if d not in derived]
            if missing:
                raise ExtractError("lost anchor: %s no longer derives %s (line %d)" % (src.rel, ",".join(missing), src.line_of(head_s)))
            new = "#[derive(%s)]\n" % ", ".join(keep_derive)
        ed.replace(head_s, head_e, new, "R6", "attributes/doc comments dropped; derive kept: %s" % (keep_derive or "none"))
    elif keep_derive:
        raise ExtractError("lost anchor: %s no longer derives %s" % (src.rel, ",".join(keep_derive)))
    return hs, derived


def fn_parts(src, a, b):
    """locate pieces of a fn item: index of `fn` token, params close paren,
    return type char range (or None), body braces (or None for a trait method
    declaration), where start"""
    toks = src.toks
    hs = header_start(toks, a, b)
    k = hs
    while k < b and not (toks[k].kind == "ident" and toks[k].text == "fn"):
        if toks[k].kind == "punct" and toks[k].text in ("{", ";"):
            raise ExtractError("not a fn item at %s:%d" % (src.rel, src.line_of(toks[hs].start)))
        k += 1
    fn_k = k
    # params: first `(` at angle depth 0 after fn name
    k += 1
    angle = 0
    while k < b:
        t = toks[k]
        if t.kind == "punct":
            if t.text == "<":
                angle += 1
            elif t.text == ">" and toks[k - 1].text != "-":
                angle -= 1
            elif t.text == "(" and angle == 0:
                break
        k += 1
    p_open = k
    p_close = match_close(toks, p_open)
    # after params: optional `-> type`, optional where, then `{` or `;`
    k = p_close + 1
    ret = None
    arrow = None
    end_k = None
    where_k = None
    depth = 0
    angle = 0
    while k < b:
        t = toks[k]
        if t.kind == "punct":
            if t.text in ("(", "["):
                depth += 1
            elif t.text in (")", "]"):
                depth -= 1
            elif t.text == "<":
                angle += 1
            elif t.text == ">" and toks[k - 1].text == "-" and depth == 0 and angle == 0 and arrow is None:
                arrow = k
            elif t.text == ">" and toks[k - 1].text == "-":
                pass  # the arrow of an `Fn(..) -> T` bound inside the return type
            elif t.text == ">":
                angle -= 1
            elif t.text in ("{", ";") and depth == 0:
                end_k = k
                break
        elif t.kind == "ident" and t.text == "where" and depth == 0 and angle == 0 and where_k is None:
            where_k = k
        k += 1
    if end_k is None:
        raise ExtractError("cannot find body of fn at %s:%d" % (src.rel, src.line_of(toks[fn_k].start)))
    if arrow is not None:
        r_lo = _next_sig(toks, arrow + 1, end_k)
        r_hi_tok = (where_k if where_k is not None else end_k)
        # last significant token before r_hi_tok
        j = r_hi_tok - 1
        while toks[j].kind in ("ws", "comment"):
            j -= 1
        ret = (toks[r_lo].start, toks[j].end)
    body = None
    if toks[end_k].text == "{":
        body = (end_k, match_close(toks, end_k))
    return {"fn": fn_k, "p_open": p_open, "p_close": p_close, "ret": ret, "where": where_k, "end": end_k, "body": body}


LOOP_KW = ("while", "loop", "for")


def loops_in(src, lo, hi):
    """loop keywords in token range, in textual order -> list of (kw_index, body_open_index)"""
    toks = src.toks
    out = []
    k = lo
    while k < hi:
        t = toks[k]
        if t.kind == "ident" and t.text in LOOP_KW:
            # `for` of a HRTB / impl-for does not occur in bodies we extract
            j = k + 1
            depth = 0
            while j < hi:
                u = toks[j]
                if u.kind == "punct":
                    if u.text in ("(", "["):
                        depth += 1
                    elif u.text in (")", "]"):
                        depth -= 1
                    elif u.text == "{" and depth == 0:
                        break
                j += 1
            if j >= hi:
                raise ExtractError("loop without body at %s:%d" % (src.rel, src.line_of(t.start)))
            out.append((k, j))
        k += 1
    return out


def find_token_seq(src, lo, hi, pattern):
    """token indices (first, last) of each occurrence of the token sequence"""
    toks = src.toks
    want = [t.text for t in significant(tokenize(pattern))]
    ks = sig_indices(toks, lo, hi)
    out = []
    x = 0
    while x + len(want) <= len(ks):
        if [toks[ks[x + y]].text for y in range(len(want))] == want:
            out.append((ks[x], ks[x + len(want) - 1]))
            x += len(want)
        else:
            x += 1
    return out


BLOCK_KW = ("if", "match", "while", "for", "loop", "unsafe")


def enclosing_stmt(src, lo, hi, k):
    """smallest statement of the body [lo,hi) containing token k.
    -> (first_tok, end_tok, is_tail): end_tok is the `;` or closing `}` that ends the
    statement; is_tail when the statement is the tail expression of its block"""
    toks = src.toks
    # backwards to the statement start
    depth = 0
    j = k - 1
    start = lo
    while j >= lo:
        t = toks[j]
        if t.kind == "punct":
            if t.text in CLOSE:
                depth += 1
            elif t.text in OPEN:
                if depth == 0:
                    if t.text == "{":
                        start = j + 1
                        break
                    # inside parentheses/brackets: the statement is further out
                    k = j
                else:
                    depth -= 1
            elif t.text == ";" and depth == 0:
                start = j + 1
                break
            elif t.text == "}" and depth == 1:
                # a preceding block statement ended here -- unless it is `} else`
                pass
        j -= 1
    # a `}` at depth 0 just before us ends the previous statement: rescan forward from
    # `start` splitting at block statements
    pos = start
    while True:
        while pos < hi and toks[pos].kind in ("ws", "comment"):
            pos += 1
        s0 = pos
        blocky = toks[s0].kind == "ident" and toks[s0].text in BLOCK_KW or toks[s0].text == "{"
        depth = 0
        e = None
        tail = False
        while pos < hi:
            t = toks[pos]
            if t.kind == "punct":
                if t.text in OPEN:
                    if t.text == "{" and depth == 0 and blocky:
                        c = match_close(toks, pos)
                        nxt = _next_sig(toks, c + 1, hi + 1)
                        if nxt is not None and toks[nxt].kind == "ident" and toks[nxt].text == "else":
                            pos = c + 1
                            continue
                        if nxt is not None and toks[nxt].kind == "punct" and toks[nxt].text in (".", "?"):
                            blocky = False
                            pos = c + 1
                            continue
                        if nxt is not None and toks[nxt].text == ";":
                            e = nxt
                        else:
                            e = c
                        break
                    pos = match_close(toks, pos) + 1
                    continue
                if t.text in CLOSE:
                    # closing brace of the enclosing block: tail expression
                    e = pos
                    tail = True
                    break
                if t.text == ";" and depth == 0:
                    e = pos
                    break
            pos += 1
        if e is None and pos >= hi:
            # ran into the end of the body: tail expression of the fn
            e = hi
            tail = True
        if e is None:
            raise ExtractError("cannot delimit statement at %s:%d" % (src.rel, src.line_of(toks[k].start)))
        if s0 <= k <= e:
            return s0, e, tail
        if e < k:
            pos = e + 1
            continue
        raise ExtractError("cannot delimit statement at %s:%d" % (src.rel, src.line_of(toks[k].start)))


def stmts_in_block(src, lo, hi):
    """statements of the block whose inside is the token range [lo,hi): list of
    (first_tok, end_tok, is_tail)"""
    toks = src.toks
    out = []
    pos = lo
    while True:
        while pos < hi and toks[pos].kind in ("ws", "comment"):
            pos += 1
        if pos >= hi:
            break
        s0 = pos
        blocky = (toks[s0].kind == "ident" and toks[s0].text in BLOCK_KW) or toks[s0].text == "{"
        e = None
        tail = False
        while pos < hi:
            t = toks[pos]
            if t.kind == "punct":
                if t.text in OPEN:
                    if t.text == "{" and blocky:
                        c = match_close(toks, pos)
                        nxt = _next_sig(toks, c + 1, hi)
                        if nxt is not None and toks[nxt].kind == "ident" and toks[nxt].text == "else":
                            pos = c + 1
                            continue
                        if nxt is not None and toks[nxt].kind == "punct" and toks[nxt].text in (".", "?"):
                            blocky = False
                            pos = c + 1
                            continue
                        e = nxt if (nxt is not None and toks[nxt].text == ";") else c
                        break
                    pos = match_close(toks, pos) + 1
                    continue
                if t.text == ";":
                    e = pos
                    break
            pos += 1
        if e is None:
            e = hi
            tail = True
        elif toks[e].text == "}" and _next_sig(toks, e + 1, hi) is None:
            tail = True
        out.append((s0, e, tail))
        pos = e + 1
    return out


def lines_matching(src, lo_off, hi_off, literal):
    """character ranges (line_start, line_end) of lines inside [lo_off,hi_off)
    whose stripped text equals literal"""
    out = []
    pos = lo_off
    text = src.text
    # start at beginning of the line containing lo_off
    ls = text.rfind("\n", 0, lo_off) + 1
    pos = ls
    while pos < hi_off:
        le = text.find("\n", pos)
        if le < 0:
            le = len(text)
        if text[pos:le].strip() == literal and pos >= ls:
            out.append((pos, le))
        pos = le + 1
    return out


# --------------------------------------------------------------------------
# rewrite rules


def rule_R1(ed, src, parts):
    """break <expr> -> return <expr>, loop must be in tail position"""
    toks = src.toks
    bo, bc = parts["body"]
    loops = [(k, j) for (k, j) in loops_in(src, bo + 1, bc) if toks[k].text == "loop"]
    if len(loops) != 1:
        raise ExtractError("R1 needs exactly one `loop` in the fn (%s:%d), found %d" % (src.rel, src.line_of(toks[bo].start), len(loops)))
    lk, lopen = loops[0]
    lclose = match_close(toks, lopen)
    # tail position check
    cons_start, cons_end = lk, lclose  # token indices of construct
    while True:
        # find enclosing brace block
        depth = 0
        k = cons_start - 1
        enc_open = None
        while k >= bo:
            t = toks[k]
            if t.kind == "punct":
                if t.text in CLOSE:
                    depth += 1
                elif t.text in OPEN:
                    if depth == 0:
                        enc_open = k
                        break
                    depth -= 1
            k -= 1
        if enc_open is None or toks[enc_open].text != "{":
            raise ExtractError("R1: loop not in tail position (%s:%d)" % (src.rel, src.line_of(toks[lk].start)))
        enc_close = match_close(toks, enc_open)
        # header of the enclosing block
        h = enc_open - 1
        while h >= bo and toks[h].kind in ("ws", "comment"):
            h -= 1
        # scan back to statement start
        hdr = []
        d = 0
        k = enc_open - 1
        while k > bo:
            t = toks[k]
            if t.kind == "punct":
                if t.text in CLOSE and t.text != "}":
                    d += 1
                elif t.text in ("(", "["):
                    if d == 0:
                        break
                    d -= 1
                elif d == 0 and t.text in (";", "{", "}"):
                    break
                elif d == 0 and t.text == ">" and toks[k - 1].text == "=":
                    break
            if t.kind not in ("ws", "comment"):
                hdr.append(t.text)
            k -= 1
        hdr.reverse()
        is_match = hdr[:1] == ["match"]
        if is_match:
            # construct is an arm of this match (value position): fine when the
            # arm is `pat => construct` -- i.e. preceded by `=>`
            p = cons_start - 1
            while toks[p].kind in ("ws", "comment"):
                p -= 1
            if not (toks[p].text == ">" and toks[p - 1].text == "="):
                raise ExtractError("R1: loop not an arm value (%s:%d)" % (src.rel, src.line_of(toks[lk].start)))
            cons_start, cons_end = k + 1, enc_close
            # skip ws to the real start (`match` keyword)
            while toks[cons_start].kind in ("ws", "comment"):
                cons_start += 1
        else:
            # construct must be last in the block
            nxt = _next_sig(toks, cons_end + 1, enc_close + 1)
            if nxt != enc_close:
                raise ExtractError("R1: loop not in tail position (%s:%d)" % (src.rel, src.line_of(toks[lk].start)))
            if hdr[:1] == ["let"] or "=" in hdr[:0]:
                raise ExtractError("R1: loop value is bound (%s:%d)" % (src.rel, src.line_of(toks[lk].start)))
            cons_start, cons_end = enc_open, enc_close
        if enc_open == bo:
            break
    # the breaks: only those whose innermost loop is this loop (no nested loops
    # that could carry values: checked above -- exactly one `loop`; while/for
    # cannot take a value)
    n = 0
    for k in range(lopen + 1, lclose):
        t = toks[k]
        if t.kind == "ident" and t.text == "break":
            j = _next_sig(toks, k + 1, lclose)
            if toks[j].text != ";" and toks[j].kind != "lifetime":
                ed.replace(t.start, t.end, "return", "R1", "break-with-value in tail-position loop")
                n += 1
    if n == 0:
        raise ExtractError("R1 requested but no break-with-value found (%s)" % src.rel)
    return n


def _receiver_start(toks, dot_k, lo):
    """scan backwards from the `.` of a method call to the start of the
    receiver expression"""
    k = dot_k - 1
    depth = 0
    while k >= lo:
        t = toks[k]
        if t.kind == "punct":
            if t.text in CLOSE:
                depth += 1
            elif t.text in OPEN:
                if depth == 0:
                    return k + 1
                depth -= 1
            elif depth == 0 and t.text in (";", ",", "=", "|"):
                return k + 1
            elif depth == 0 and t.text == ">" and toks[k - 1].text == "=":
                return k + 1
        elif depth == 0 and t.kind == "ident" and t.text in ("return", "let", "match", "if", "in"):
            return k + 1
        k -= 1
    return lo


def rule_R2(ed, src, parts, method, ordinal):
    """(method `okmap`: `RECV.map(PATH)` on a Result -> match RECV { Ok(v) => Ok(PATH(v)), Err(e) => Err(e) },
       the definition of `Result::map`, for a path that is an enum constructor)
       RECV.map(|p| body)        -> match RECV { Some(p) => Some(body), None => None }
       RECV.and_then(|p| body)   -> match RECV { Some(p) => body, None => None }
       RECV.map_err(|p| body)?   -> match RECV { Ok(v) => v, Err(p) => return Err(body) }"""
    toks = src.toks
    bo, bc = parts["body"]
    hits = []
    result_map = (method == "okmap")
    if result_map:
        method = "map"
    for k in range(bo + 1, bc):
        t = toks[k]
        if t.kind == "ident" and t.text == method and toks[k - 1].text == ".":
            j = _next_sig(toks, k + 1, bc)
            if toks[j].text == "(":
                hits.append((k, j))
    if ordinal > len(hits):
        raise ExtractError("lost anchor: R2 %s #%d not found in %s:%d" % (method, ordinal, src.rel, src.line_of(toks[bo].start)))
    k, popen = hits[ordinal - 1]
    pclose = match_close(toks, popen)
    bar1 = _next_sig(toks, popen + 1, pclose)
    if toks[bar1].text not in ("|", "move"):
        # a function path instead of a closure literal: apply it
        if method not in ("map", "and_then"):
            raise ExtractError("R2: %s with a path argument is not handled (%s:%d)" % (method, src.rel, src.line_of(toks[k].start)))
        last = pclose - 1
        while toks[last].kind in ("ws", "comment"):
            last -= 1
        path = src.text[toks[bar1].start:toks[last].end]
        dot_k = k - 1
        r0 = _receiver_start(toks, dot_k, bo + 1)
        while toks[r0].kind in ("ws", "comment"):
            r0 += 1
        j = dot_k - 1
        while toks[j].kind in ("ws", "comment"):
            j -= 1
        recv = src.text[toks[r0].start:toks[j].end]
        if result_map:
            new = "match %s { Ok(verif_x) => Ok(%s(verif_x)), Err(verif_e) => Err(verif_e) }" % (recv, path)
        elif method == "map":
            new = "match %s { Some(verif_x) => Some(%s(verif_x)), None => None }" % (recv, path)
        else:
            new = "match %s { Some(verif_x) => %s(verif_x), None => None }" % (recv, path)
        ed.replace(toks[r0].start, toks[pclose].end, new, "R2", "%s with a function path -> match" % method)
        return
    if toks[bar1].text == "move":
        bar1 = _next_sig(toks, bar1 + 1, pclose)
    bar2 = bar1 + 1
    while toks[bar2].text != "|":
        bar2 += 1
    pat = src.text[toks[bar1].end:toks[bar2].start].strip()
    body_lo = _next_sig(toks, bar2 + 1, pclose)
    j = pclose - 1
    while toks[j].kind in ("ws", "comment"):
        j -= 1
    body = src.text[toks[body_lo].start:toks[j].end]
    dot_k = k - 1
    r0 = _receiver_start(toks, dot_k, bo + 1)
    while toks[r0].kind in ("ws", "comment"):
        r0 += 1
    # receiver text: drop trailing whitespace before the dot
    j = dot_k - 1
    while toks[j].kind in ("ws", "comment"):
        j -= 1
    recv_end = toks[j].end
    end = toks[pclose].end
    # the closure body itself is left in place (annotations may land inside it): only the text
    # around it is rewritten
    jb = pclose - 1
    while toks[jb].kind in ("ws", "comment"):
        jb -= 1
    body_end = toks[jb].end
    if method == "map":
        head, tail = " { Some(%s) => Some(" % pat, "), None => None }"
    elif method == "and_then":
        head, tail = " { Some(%s) => " % pat, ", None => None }"
    elif method == "map_err":
        q = _next_sig(toks, pclose + 1, bc)
        if toks[q].text != "?":
            raise ExtractError("R2 map_err without `?` (%s:%d)" % (src.rel, src.line_of(toks[k].start)))
        end = toks[q].end
        head, tail = " { Ok(verif_ok) => verif_ok, Err(%s) => return Err(" % pat, ") }"
    else:
        raise ExtractError("R2: unknown method %s" % method)
    ed.insert(toks[r0].start, "match ", "R2", "%s with closure -> match" % method)
    ed.replace(recv_end, toks[body_lo].start, head, "R2", "%s with closure -> match" % method)
    ed.replace(body_end, end, tail, "R2", "%s with closure -> match" % method)


def rule_R9(ed, src, parts, ordinal):
    """locspan::Meta::map (`Meta(f(self.0), self.1)`, locspan 0.8.2 src/meta.rs) applied to a
    closure literal or a constructor path, beta-reduced:
        RECV.map(|PAT| BODY)  ->  { let Meta(verif_v, verif_m) = RECV; let PAT = verif_v; Meta(BODY, verif_m) }
        RECV.map(PATH)        ->  { let Meta(verif_v, verif_m) = RECV; Meta(PATH(verif_v), verif_m) }"""
    toks = src.toks
    bo, bc = parts["body"]
    hits = []
    for k in range(bo + 1, bc):
        t = toks[k]
        if t.kind == "ident" and t.text == "map" and toks[k - 1].text == ".":
            j = _next_sig(toks, k + 1, bc)
            if toks[j].text == "(":
                hits.append((k, j))
    if ordinal > len(hits):
        raise ExtractError("lost anchor: R9 map #%d not found in %s:%d" % (ordinal, src.rel, src.line_of(toks[bo].start)))
    k, popen = hits[ordinal - 1]
    pclose = match_close(toks, popen)
    a0 = _next_sig(toks, popen + 1, pclose)
    dot_k = k - 1
    r0 = _receiver_start(toks, dot_k, bo + 1)
    while toks[r0].kind in ("ws", "comment"):
        r0 += 1
    j = dot_k - 1
    while toks[j].kind in ("ws", "comment"):
        j -= 1
    recv = src.text[toks[r0].start:toks[j].end]
    last = pclose - 1
    while toks[last].kind in ("ws", "comment"):
        last -= 1
    if toks[a0].text == "|":
        b2 = a0 + 1
        while toks[b2].text != "|":
            b2 += 1
        pat = src.text[toks[a0].end:toks[b2].start].strip()
        body_lo = _next_sig(toks, b2 + 1, pclose)
        body = src.text[toks[body_lo].start:toks[last].end]
        new = "{ let Meta(verif_v, verif_m) = %s; let %s = verif_v; Meta(%s, verif_m) }" % (recv, pat, body)
    else:
        path = src.text[toks[a0].start:toks[last].end]
        new = "{ let Meta(verif_v, verif_m) = %s; Meta(%s(verif_v), verif_m) }" % (recv, path)
    ed.replace(toks[r0].start, toks[pclose].end, new, "R9", "locspan Meta::map inlined and beta-reduced")


def rule_R3(ed, src, parts, pattern):
    bo, bc = parts["body"]
    a, b = find_in(src, bo + 1, bc, pattern)
    ed.replace(src.toks[a].start, src.toks[b - 1].end, "", "R3", "nested item `%s` hoisted to module level" % pattern)


def rule_R4(ed, src, parts, inv_text="", body_text="", after_text=""):
    toks = src.toks
    bo, bc = parts["body"]
    sig = [toks[k].text for k in sig_indices(toks, bo + 1, bc)]
    if sig != ["self", ".", "last", "(", ")", ";"]:
        raise ExtractError("R4: body is not `self.last();` (%s:%d)" % (src.rel, src.line_of(toks[bo].start)))
    ks = sig_indices(toks, bo + 1, bc)
    ed.replace(toks[ks[0]].start, toks[ks[-1]].end, "loop\n%s\n{ %s if self.next().is_none() { break; } }\n%s" % (inv_text, body_text, after_text), "R4", "Iterator::last() == drain with next() (loop contract inserted as annotation)")


def rule_R5(ed, src, parts, ordinal):
    """for (i, x) in E.enumerate() { body }  ->
       let mut i = 0; for x in E { body; i += 1; }   (no `continue` in body)"""
    toks = src.toks
    bo, bc = parts["body"]
    fors = [(k, j) for (k, j) in loops_in(src, bo + 1, bc) if toks[k].text == "for"]
    cands = []
    for (k, j) in fors:
        texts = [toks[x].text for x in sig_indices(toks, k, j)]
        if texts[-4:] == [".", "enumerate", "(", ")"] and texts[1] == "(":
            cands.append((k, j))
    if ordinal > len(cands):
        raise ExtractError("lost anchor: R5 #%d not found (%s:%d)" % (ordinal, src.rel, src.line_of(toks[bo].start)))
    k, j = cands[ordinal - 1]
    close = match_close(toks, j)
    for x in range(j + 1, close):
        if toks[x].kind == "ident" and toks[x].text == "continue":
            raise ExtractError("R5: loop body contains `continue` (%s:%d)" % (src.rel, src.line_of(toks[k].start)))
    ks = sig_indices(toks, k, j)
    # for ( i , PAT ) in EXPR . enumerate ( )
    assert toks[ks[1]].text == "("
    pclose = match_close(toks, ks[1])
    i_tok = toks[ks[2]]
    comma = ks[3]
    if toks[comma].text != ",":
        raise ExtractError("R5: unexpected pattern (%s:%d)" % (src.rel, src.line_of(toks[k].start)))
    pat = src.text[toks[comma].end:toks[pclose].start].strip()
    in_k = _next_sig(toks, pclose + 1, j)
    if toks[in_k].text != "in":
        raise ExtractError("R5: expected `in`")
    e_lo = _next_sig(toks, in_k + 1, j)
    dot = ks[-4]
    e_hi = dot - 1
    while toks[e_hi].kind in ("ws", "comment"):
        e_hi -= 1
    expr = src.text[toks[e_lo].start:toks[e_hi].end]
    ivar = i_tok.text
    ed.replace(toks[k].start, toks[ks[-1]].end, "let mut %s: usize = 0;\nfor %s in %s" % (ivar, pat, expr), "R5", "enumerate -> counter `%s`" % ivar)
    ed.replace(toks[close].start, toks[close].start, "; %s += 1; " % ivar, "R5", "counter increment, last statement of body")
    return (k, j)


def rule_R11(ed, src, parts, ordinal, name, ghost=None, plain=False):
    """the K-th `for` loop desugared as the Rust reference defines it (so that the loop can carry
    an invariant over a caller-supplied iterator type):
        for PAT in EXPR { BODY }
          ->  let mut NAME = IntoIterator::into_iter(EXPR);
              loop { match NAME.next() { Some(PAT) => { BODY } None => break, } }
    and, when the loop iterates `EXPR.enumerate()` with a pattern `(i, PAT)` (R5), the counter
    `i` becomes an explicit variable incremented as the last statement of the body."""
    toks = src.toks
    bo, bc = parts["body"]
    fors = [(k, j) for (k, j) in loops_in(src, bo + 1, bc) if toks[k].text == "for"]
    if ordinal > len(fors):
        raise ExtractError("lost anchor: R11 for-loop #%d not found (%s:%d)" % (ordinal, src.rel, src.line_of(toks[bo].start)))
    k, j = fors[ordinal - 1]
    close = match_close(toks, j)
    ks = sig_indices(toks, k, j)
    # locate `in` at depth 0
    depth = 0
    in_k = None
    for x in ks[1:]:
        t = toks[x]
        if t.kind == "punct" and t.text in OPEN:
            depth += 1
        elif t.kind == "punct" and t.text in CLOSE:
            depth -= 1
        elif depth == 0 and t.kind == "ident" and t.text == "in":
            in_k = x
            break
    if in_k is None:
        raise ExtractError("R11: cannot parse for header (%s:%d)" % (src.rel, src.line_of(toks[k].start)))
    p_lo = ks[1]
    p_hi = in_k - 1
    while toks[p_hi].kind in ("ws", "comment"):
        p_hi -= 1
    pat = src.text[toks[p_lo].start:toks[p_hi].end]
    e_lo = _next_sig(toks, in_k + 1, j)
    e_hi = j - 1
    while toks[e_hi].kind in ("ws", "comment"):
        e_hi -= 1
    expr = src.text[toks[e_lo].start:toks[e_hi].end]
    counter = None
    texts = [toks[x].text for x in sig_indices(toks, e_lo, e_hi + 1)]
    if texts[-4:] == [".", "enumerate", "(", ")"] and pat.startswith("("):
        # (i, PAT)
        inner = pat[1:-1]
        comma = inner.index(",")
        counter = inner[:comma].strip()
        pat = inner[comma + 1:].strip()
        dot = [x for x in sig_indices(toks, e_lo, e_hi + 1)][-4]
        d2 = dot - 1
        while toks[d2].kind in ("ws", "comment"):
            d2 -= 1
        expr = src.text[toks[e_lo].start:toks[d2].end]
        for x in range(j + 1, close):
            if toks[x].kind == "ident" and toks[x].text == "continue":
                raise ExtractError("R11/R5: loop body contains `continue` (%s:%d)" % (src.rel, src.line_of(toks[k].start)))
    head = ""
    if counter:
        head += "let mut %s: usize = 0;\n" % counter
    # (`plain`: the iterable already IS the iterator -- `IntoIterator for I: Iterator` is the identity --
    #  and the unit verifies its `next` as an inherent method, R10, so no trait impl exists to go through)
    head += ("let mut %s = %s;\n" % (name, expr)) if plain else ("let mut %s = IntoIterator::into_iter(%s);\n" % (name, expr))
    if ghost:
        # (annotation only) a ghost name for what the iterator will yield, for the loop invariant
        # (`NAME=EXPR`: the ghost expression spelled out, e.g. `items=it1.0.remaining()` for a wrapper)
        if "=" in ghost:
            head += "let ghost %s = %s;\n" % tuple(ghost.split("=", 1))
        else:
            head += "let ghost %s = %s.remaining();\n" % (ghost, name)
    head += "loop"
    ed.replace(toks[k].start, toks[e_hi].end, head, "R11", "for-loop desugared (Rust reference); iterator named `%s`%s" % (name, (", enumerate counter `%s` made explicit (R5)" % counter) if counter else ""))
    ed.insert(toks[j].end, " match %s.next() { Some(%s) => {" % (name, pat), "R11", "for-loop desugared")
    tail = ""
    if counter:
        tail += "; %s += 1; " % counter
    ed.insert(toks[close].start, tail + "} None => break, } ", "R11", "for-loop desugared")


def loop_index(blk, src, ls, kth, label):
    """index into the loop list `ls` of what the template calls loop `kth`: by position in the source,
    unless the block declares `//@loopkey kth \`tokens\`` -- then it is the one loop of `ls` whose body
    contains that token sequence (so that swapping the branches that hold the loops does not move the
    annotations onto the wrong loop)"""
    toks = src.toks
    for (n, a, _t) in blk.subs:
        if n == "loopkey":
            m = re.match(r"(\d+)\s+`(.*)`\s*$", a)
            if not m:
                raise ExtractError("%s: bad //@loopkey argument `%s`" % (label, a))
            if int(m.group(1)) == kth:
                hits = [i for i, (k, j) in enumerate(ls) if find_token_seq(src, j + 1, match_close(toks, j), m.group(2))]
                if len(hits) != 1:
                    raise ExtractError("lost anchor: %s: loop key `%s` identifies %d loops" % (label, m.group(2), len(hits)))
                return hits[0]
    if kth > len(ls):
        raise ExtractError("lost anchor: %s has %d loops, contract names loop %d" % (label, len(ls), kth))
    return kth - 1


def rule_R14(ed, src, parts, local, hint="", before=""):
    """R14: the implicit drop of the named local at the end of the fn body is made explicit, as Rust's
    drop elaboration does: the tail expression is bound to a fresh local, the local's `drop` (verified
    as an inherent method, R10) is called, the bound value is returned.  The local must be declared by
    a `let` directly in the fn body and the body must end in a tail expression."""
    toks = src.toks
    bo, bc = parts["body"]
    sts = stmts_in_block(src, bo + 1, bc)
    if not sts:
        raise ExtractError("R14: empty body")
    s0, e, tail = sts[-1]
    if not tail:
        raise ExtractError("R14: the fn body does not end in a tail expression")
    declared = False
    for (a, b, _t) in sts[:-1]:
        seq = [t.text for t in toks[a:b + 1] if t.kind not in ("ws", "comment")]
        if seq[:1] == ["let"] and local in seq[1:4]:
            declared = True
    if not declared:
        raise ExtractError("lost anchor: R14: no `let %s` directly in the fn body" % local)
    ed.insert(toks[s0].start, "let verif_r = ", "R14", "tail expression bound (implicit drop of `%s` made explicit)" % local)
    # end of the tail expression: last significant token before the closing brace
    j = bc - 1
    while toks[j].kind in ("ws", "comment"):
        j -= 1
    ed.insert(toks[j].end, ";\n%s\t\t%s.drop();\n%s\t\tverif_r" % ((before.rstrip() + "\n") if before.strip() else "", local, (hint.rstrip() + "\n") if hint.strip() else ""), "R14", "implicit drop of `%s` made explicit" % local)


def rule_R7(ed, src, parts, ordinal, params, text):
    """closure #ordinal in the fn: replace `|p|` by `|params|`, wrap a
    non-block body in braces, insert contract text between"""
    toks = src.toks
    bo, bc = parts["body"]
    hits = []
    k = bo + 1
    while k < bc:
        t = toks[k]
        if t.kind == "punct" and t.text == "|":
            p = k - 1
            while toks[p].kind in ("ws", "comment"):
                p -= 1
            # closure start if previous significant token is not an operand
            if toks[p].kind == "punct" and toks[p].text in ("(", ",", "=", "{", ";") or (toks[p].kind == "ident" and toks[p].text in ("move", "return")):
                k2 = k + 1
                while toks[k2].text != "|":
                    k2 += 1
                hits.append((k, k2))
                k = k2 + 1
                continue
        k += 1
    if ordinal > len(hits):
        raise ExtractError("lost anchor: closure #%d not found (%s:%d)" % (ordinal, src.rel, src.line_of(toks[bo].start)))
    b1, b2 = hits[ordinal - 1]
    destructure = ""
    if params is not None:
        mt = re.match(r"\s*(\(.*\))\s*:\s*(.*)$", params)
        if mt:
            # a tuple PATTERN as the parameter (Verus takes variables only): the parameter becomes a
            # variable and the pattern is bound from it by a `let` first in the body
            destructure = "let %s = verif_p; " % mt.group(1)
            params = "verif_p: %s" % mt.group(2)
        ed.replace(toks[b1].start, toks[b2].end, "|%s|" % params, "R7", "closure parameter types made explicit" + (" (tuple pattern bound by a let in the body)" if destructure else ""))
    body_lo = _next_sig(toks, b2 + 1, bc)
    if toks[body_lo].text == "{":
        ed.insert(toks[body_lo].start, " " + text.strip() + " ", "A")
        if destructure:
            ed.insert(toks[body_lo].end, " " + destructure, "R7", "tuple pattern of the closure parameter bound by a let")
    else:
        # body extends to the end of the enclosing call argument / statement
        depth = 0
        k = body_lo
        while k < bc:
            t = toks[k]
            if t.kind == "punct":
                if t.text in OPEN:
                    depth += 1
                elif t.text in CLOSE:
                    if depth == 0:
                        break
                    depth -= 1
                elif depth == 0 and t.text in (",", ";"):
                    break
            k += 1
        j = k - 1
        while toks[j].kind in ("ws", "comment"):
            j -= 1
        ed.insert(toks[body_lo].start, " " + text.strip() + " { " + destructure, "R7", "closure body wrapped in a block")
        ed.insert(toks[j].end, " }", "R7", "closure body wrapped in a block")


def rule_R8(ed, src, a, b):
    """struct fields made `pub` (visibility only; lets contracts of pub fns name them)"""
    toks = src.toks
    bb = body_braces(src, a, b)
    if bb is None:
        # tuple struct: fields are inside the first parenthesis
        k = header_start(toks, a, b)
        while k < b and not (toks[k].kind == "punct" and toks[k].text == "("):
            k += 1
        if k >= b:
            raise ExtractError("R8: struct without fields (%s)" % src.rel)
        bb = (k, match_close(toks, k))
    bo, bc = bb
    k = bo + 1
    expect_field = True
    depth = 0
    angle = 0
    while k < bc:
        t = toks[k]
        if t.kind in ("ws", "comment"):
            k += 1
            continue
        if expect_field and depth == 0 and angle == 0:
            if t.kind == "punct" and t.text == "#":
                j = _next_sig(toks, k + 1, bc)
                k = match_close(toks, j) + 1
                continue
            if (t.kind == "ident" and t.text != "pub") or (t.kind == "punct" and t.text in ("&", "(", "[", "*")) or t.kind == "lifetime":
                # (a tuple field may start with a type that is not an identifier: `&'t T`, `(A, B)`, `[T; N]`)
                ed.insert(t.start, "pub ", "R8", "field visibility widened")
            elif t.kind == "ident" and t.text == "pub":
                j = _next_sig(toks, k + 1, bc)
                if toks[j].text == "(":
                    c = match_close(toks, j)
                    ed.replace(toks[j].start, toks[c].end, "", "R8", "field visibility widened")
            expect_field = False
        if t.kind == "punct":
            if t.text in OPEN:
                depth += 1
            elif t.text in CLOSE:
                depth -= 1
            elif t.text == "<":
                angle += 1
            elif t.text == ">" and toks[k - 1].text != "-":
                angle -= 1
            elif t.text == "," and depth == 0 and angle == 0:
                expect_field = True
        k += 1


# --------------------------------------------------------------------------
# template processing

DIRECTIVE = re.compile(r"^\s*//@(\w+)\s*(.*)$")


class Block:
    def __init__(self, kind, arg, lineno):
        self.kind, self.arg, self.lineno = kind, arg, lineno
        self.subs = []  # (name, arg, text)


INCLUDE = re.compile(r"^\s*//@include\s+(\S+)\s*$")


def expand_includes(text, base_dir, depth=0):
    """//@include <path relative to units/> : shared specification vocabulary, inlined verbatim"""
    if depth > 4:
        raise ExtractError("//@include nesting too deep")
    out = []
    for line in text.split("\n"):
        m = INCLUDE.match(line)
        if m:
            path = os.path.join(base_dir, m.group(1))
            try:
                with open(path, encoding="utf-8") as f:
                    inc = f.read()
            except OSError as e:
                raise ExtractError("cannot include %s: %s" % (m.group(1), e))
            out.append("// ---- begin include %s" % m.group(1))
            out.append(expand_includes(inc, base_dir, depth + 1))
            out.append("// ---- end include %s" % m.group(1))
        else:
            out.append(line)
    return "\n".join(out)


def parse_template(text):
    """-> list of ('raw', text) | ('item', Block) | ('impl', Block, children)"""
    lines = text.split("\n")
    out = []
    i = 0
    n = len(lines)

    def read_block(kind, arg, i):
        blk = Block(kind, arg, i)
        cur = None
        while i < n:
            m = DIRECTIVE.match(lines[i])
            if m:
                name, a = m.group(1), m.group(2).strip()
                if name == "end":
                    return blk, i + 1
                if name in ("item", "impl", "fn", "endimpl"):
                    raise ExtractError("template line %d: //@%s inside an open block (missing //@end)" % (i + 1, name))
                cur = [name, a, []]
                blk.subs.append(cur)
            else:
                if cur is None:
                    if lines[i].strip():
                        raise ExtractError("template line %d: text before any sub-directive" % (i + 1))
                else:
                    cur[2].append(lines[i])
            i += 1
        raise ExtractError("template: unterminated block starting line %d" % blk.lineno)

    stack_impl = None
    while i < n:
        m = DIRECTIVE.match(lines[i])
        if not m:
            (stack_impl[2] if stack_impl else out).append(("raw", lines[i]))
            i += 1
            continue
        name, arg = m.group(1), m.group(2).strip()
        if name == "item":
            blk, i = read_block("item", arg, i + 1)
            (stack_impl[2] if stack_impl else out).append(("item", blk))
        elif name == "impl":
            if stack_impl:
                raise ExtractError("template line %d: nested //@impl" % (i + 1))
            stack_impl = ["impl", Block("impl", arg, i + 1), []]
            i += 1
            # optional impl-level sub-directives directly following
            while i < n:
                m2 = DIRECTIVE.match(lines[i])
                if m2 and m2.group(1) in ("subst", "headerattr"):
                    stack_impl[1].subs.append([m2.group(1), m2.group(2).strip(), []])
                    i += 1
                else:
                    break
        elif name == "fn":
            if not stack_impl:
                raise ExtractError("template line %d: //@fn outside //@impl" % (i + 1))
            blk, i = read_block("fn", arg, i + 1)
            stack_impl[2].append(("fn", blk))
        elif name == "endimpl":
            if not stack_impl:
                raise ExtractError("template line %d: stray //@endimpl" % (i + 1))
            out.append(tuple(stack_impl))
            stack_impl = None
            i += 1
        elif name == "unitprops":
            out.append(("unitprops", arg.split()))
            i += 1
        else:
            raise ExtractError("template line %d: unknown top-level directive //@%s" % (i + 1, name))
    if stack_impl:
        raise ExtractError("template: unterminated //@impl")
    return out


def split_arg(arg):
    """`FILE :: PATH` -> (file, path)"""
    if "::" not in arg:
        raise ExtractError("bad directive argument `%s`" % arg)
    f, p = arg.split(" :: ", 1)
    return f.strip(), p.strip()


BQ = re.compile(r"`([^`]*)`")


def canary_text(text):
    """vacuity canary: the contract with `false` as an extra postcondition"""
    m = re.search(r"\bensures\b", text)
    if m:
        return text[:m.end()] + " false," + text[m.end():]
    m = re.search(r"\bdecreases\b", text)
    if m:
        return text[:m.start()] + "ensures false,\n" + text[m.start():]
    return text.rstrip() + "\n    ensures false,"


class Unit:
    def __init__(self, repo, template_path, canary=False):
        self.canary = canary
        self.canary_loops = 0
        self.default_props = None
        self.repo = repo
        self.template_path = template_path
        self.sources = {}
        self.report = {"template": template_path, "items": []}
        self.fn_names = []  # functions under contract (for the manifest check)

    def source(self, rel):
        if rel not in self.sources:
            self.sources[rel] = Source(self.repo, rel)
        return self.sources[rel]

    # -- one item ---------------------------------------------------------
    def emit_item(self, src, a, b, blk, label, default_subst=()):
        toks = src.toks
        ed = Edits(src, a, b)
        keep_derive = None
        for (name, arg, text) in blk.subs:
            if name == "derive":
                keep_derive = [x.strip() for x in arg.split(",") if x.strip()]
        hs, derived = strip_head(ed, src, a, b, keep_derive)
        is_fn = False
        k = hs
        while k < b and toks[k].kind == "ident" and toks[k].text in ("pub", "const", "unsafe", "async", "extern", "crate"):
            k = _next_sig(toks, k + 1, b)
            if toks[k].text == "(":
                k = _next_sig(toks, match_close(toks, k) + 1, b)
        if k < b and toks[k].kind == "ident" and toks[k].text == "fn":
            is_fn = True
        parts = fn_parts(src, a, b) if is_fn else None
        n_ann = 0
        props = None
        want_body_canary = False
        head_ins = toks[hs].start
        for (name, arg, tlines) in blk.subs:
            text = "\n".join(tlines).rstrip()
            if name == "derive":
                continue
            elif name == "props":
                props = arg.split()
            elif name == "attr":
                ed.insert(head_ins, (arg + "\n" if arg else "") + (text + "\n" if text else ""), "A", "attribute")
                n_ann += 1
            elif name == "ret":
                if not parts or not parts["ret"]:
                    raise ExtractError("%s: //@ret on an item without return type" % label)
                s, e = parts["ret"]
                ed.replace(s, e, "(%s: %s)" % (arg, src.text[s:e]), "A", "named return value")
            elif name == "spec":
                if not parts:
                    raise ExtractError("%s: //@spec on a non-fn item" % label)
                at = toks[parts["end"]].start
                ed.insert(at, "\n" + text + "\n", "A", "contract")
                no_iso = any(n == "attr" and "loop_isolation(false)" in a for (n, a, _t) in blk.subs)
                if self.canary and parts["body"] is not None and not no_iso:
                    # vacuity canary: the precondition (and context) must not be contradictory,
                    # so `false` must NOT be provable at the start of the body
                    # (functions verified without loop isolation get the canary in their loops only:
                    # a failed assertion is assumed afterwards within the same query)
                    # -- inserted after the other sub-directives, so that it follows the ghost
                    # declarations / `hide` headers of //@bodystart
                    want_body_canary = True
                n_ann += 1
            elif name == "bodystart":
                bo, bc = parts["body"]
                ed.insert(toks[bo].end, "\n" + text + "\n", "A", "ghost/proof at body start")
            elif name == "loop":
                bo, bc = parts["body"]
                ls = loops_in(src, bo + 1, bc)
                kth = int(arg)
                li = loop_index(blk, src, ls, kth, label)
                ed.insert(toks[ls[li][1]].start, "\n" + text + "\n", "A", "loop %d invariant" % kth)
                n_ann += 1
                if self.canary:
                    # the invariant (with the loop condition) must be satisfiable
                    ed.insert(toks[ls[li][1]].end, "\nproof { assert(false); } // vacuity canary (loop)\n", "A", "canary")
                    self.canary_loops += 1
            elif name == "afterloop":
                bo, bc = parts["body"]
                ls = loops_in(src, bo + 1, bc)
                kth = int(arg)
                lc = match_close(toks, ls[loop_index(blk, src, ls, kth, label)][1])
                ed.insert(toks[lc].end, "\n" + text + "\n", "A", "proof hint after loop %d" % kth)
            elif name == "bodyend":
                # before the last statement / tail expression of the fn body
                bo, bc = parts["body"]
                sts = stmts_in_block(src, bo + 1, bc)
                if not sts:
                    raise ExtractError("%s: empty body" % label)
                s0, e, tail = sts[-1]
                ed.insert(toks[s0].start, text + "\n", "A", "proof hint before the last statement / tail expression")
            elif name == "arm_of":
                # wrap the value of the match arm containing the K-th occurrence of a token
                # sequence in a block that starts with the given proof text
                m = re.match(r"(\d+)\s+`(.*)`\s*$", arg)
                if not m:
                    raise ExtractError("%s: bad //@arm_of argument `%s`" % (label, arg))
                kth, pat = int(m.group(1)), m.group(2)
                bo, bc = parts["body"]
                occ = find_token_seq(src, bo + 1, bc, pat)
                if len(occ) > 1:
                    self.report.setdefault("order_sensitive_anchors", []).append("%s: //@%s %s -- pattern occurs %d times in the function" % (label, name, arg, len(occ)))
                if kth > len(occ):
                    raise ExtractError("lost anchor: token sequence `%s` #%d not found in %s" % (pat, kth, label))
                k0 = occ[kth - 1][0]
                # backwards to the `=>` of the innermost arm containing k0 (when the pattern
                # itself ends with `=>`, that arrow is the one meant)
                depth = 0
                j = k0 - 1
                arrow = None
                kl = occ[kth - 1][1]
                if toks[kl].text == ">" and toks[kl - 1].text == "=":
                    arrow = kl
                    j = bo
                while j > bo:
                    t = toks[j]
                    if t.kind == "punct":
                        if t.text in CLOSE:
                            depth += 1
                        elif t.text in OPEN:
                            if depth == 0 and t.text == "{":
                                # entering an enclosing block: if it is an arm block `=> {` use it
                                pj = j - 1
                                while toks[pj].kind in ("ws", "comment"):
                                    pj -= 1
                                if toks[pj].text == ">" and toks[pj - 1].text == "=":
                                    arrow = pj
                                    break
                            elif depth > 0:
                                depth -= 1
                        elif t.text == ">" and toks[j - 1].text == "=" and depth == 0:
                            arrow = j
                            break
                    j -= 1
                if arrow is None:
                    raise ExtractError("lost anchor: no match arm around `%s` in %s" % (pat, label))
                e0 = _next_sig(toks, arrow + 1, bc)
                if toks[e0].text == "{":
                    ed.insert(toks[e0].end, "\n" + text + "\n", "A", "proof hint at start of match arm")
                else:
                    depth = 0
                    x = e0
                    while x < bc:
                        t = toks[x]
                        if t.kind == "punct":
                            if t.text in OPEN:
                                x = match_close(toks, x) + 1
                                continue
                            if t.text in CLOSE or t.text == ",":
                                break
                        x += 1
                    last = x - 1
                    while toks[last].kind in ("ws", "comment"):
                        last -= 1
                    ed.insert(toks[e0].start, "{\n" + text + "\n", "A", "match arm value wrapped in a block carrying a proof hint")
                    ed.insert(toks[last].end, " }", "A", "match arm value wrapped in a block carrying a proof hint")
            elif name in ("blockend", "blockstart"):
                # end / start of the first block `{ .. }` that follows the K-th occurrence of a
                # token sequence (e.g. the body of `if let Err(i) = x.binary_search(..)`)
                m = re.match(r"(\d+)\s+`(.*)`\s*$", arg)
                if not m:
                    raise ExtractError("%s: bad //@%s argument `%s`" % (label, name, arg))
                kth, pat = int(m.group(1)), m.group(2)
                bo, bc = parts["body"]
                occ = find_token_seq(src, bo + 1, bc, pat)
                if len(occ) > 1:
                    self.report.setdefault("order_sensitive_anchors", []).append("%s: //@%s %s -- pattern occurs %d times in the function" % (label, name, arg, len(occ)))
                if kth > len(occ):
                    raise ExtractError("lost anchor: token sequence `%s` #%d not found in %s" % (pat, kth, label))
                x = occ[kth - 1][1] + 1
                depth = 0
                while x < bc:
                    t = toks[x]
                    if t.kind == "punct":
                        if t.text in ("(", "["):
                            x = match_close(toks, x) + 1
                            continue
                        if t.text == "{":
                            break
                        if t.text in (";", "}"):
                            raise ExtractError("lost anchor: no block follows `%s` in %s" % (pat, label))
                    x += 1
                if x >= bc:
                    raise ExtractError("lost anchor: no block follows `%s` in %s" % (pat, label))
                xc = match_close(toks, x)
                if name == "blockstart":
                    ed.insert(toks[x].end, "\n" + text + "\n", "A", "proof hint at block start")
                else:
                    last = xc - 1
                    while toks[last].kind in ("ws", "comment"):
                        last -= 1
                    sep = "" if toks[last].text in (";", "}", "{") else ";"
                    ed.insert(toks[xc].start, sep + "\n" + text + "\n", "A", "proof hint at block end (unit-typed block)")
            elif name == "loopbody":
                bo, bc = parts["body"]
                ls = loops_in(src, bo + 1, bc)
                kth = int(arg)
                ed.insert(toks[ls[loop_index(blk, src, ls, kth, label)][1]].end, "\n" + text + "\n", "A", "proof hint at start of loop %d body" % kth)
            elif name in ("before_stmt", "after_stmt"):
                m = re.match(r"(\d+)\s+`(.*)`(?:\s+in-loop\s+(\d+))?\s*$", arg)
                if not m:
                    raise ExtractError("%s: bad //@%s argument `%s`" % (label, name, arg))
                kth, pat = int(m.group(1)), m.group(2)
                bo, bc = parts["body"]
                lo_, hi_ = bo + 1, bc
                if m.group(3):
                    # occurrences counted inside the named loop only (see //@loopkey)
                    ls = loops_in(src, bo + 1, bc)
                    lj = ls[loop_index(blk, src, ls, int(m.group(3)), label)][1]
                    lo_, hi_ = lj + 1, match_close(toks, lj)
                occ = find_token_seq(src, lo_, hi_, pat)
                if len(occ) > 1:
                    self.report.setdefault("order_sensitive_anchors", []).append("%s: //@%s %s -- pattern occurs %d times in the function" % (label, name, arg, len(occ)))
                if kth > len(occ):
                    raise ExtractError("lost anchor: token sequence `%s` #%d not found in %s" % (pat, kth, label))
                s0, e, tail = enclosing_stmt(src, bo + 1, bc, occ[kth - 1][0])
                if name == "before_stmt":
                    ed.insert(toks[s0].start, text + "\n", "A", "proof hint before statement")
                elif tail:
                    ed.insert(toks[e].start, ";\n" + text + "\n", "A", "proof hint after unit-typed tail expression")
                else:
                    ed.insert(toks[e].end, "\n" + text + "\n", "A", "proof hint after statement")
            elif name == "loopiter":
                bo, bc = parts["body"]
                ls = loops_in(src, bo + 1, bc)
                kth, nm = arg.split()
                kth = int(kth)
                li = loop_index(blk, src, ls, kth, label)
                if toks[ls[li][0]].text != "for":
                    raise ExtractError("lost anchor: %s loop %d is not a for loop" % (label, kth))
                k = ls[li][0]
                while not (toks[k].kind == "ident" and toks[k].text == "in"):
                    k += 1
                ed.insert(toks[k].end, " %s:" % nm, "A", "ghost name for the loop iterator")
            elif name in ("before", "after"):
                m = re.match(r"(\d+)\s+`(.*)`\s*$", arg)
                if not m:
                    raise ExtractError("%s: bad //@%s argument `%s`" % (label, name, arg))
                kth, lit = int(m.group(1)), m.group(2)
                bo, bc = parts["body"] if parts else (a, b - 1)
                hits = lines_matching(src, toks[bo].end, toks[bc].start, lit)
                if kth > len(hits):
                    raise ExtractError("lost anchor: line `%s` #%d not found in %s" % (lit, kth, label))
                ls, le = hits[kth - 1]
                if name == "before":
                    ed.insert(ls, text + "\n", "A", "proof hint")
                else:
                    ed.insert(le, "\n" + text, "A", "proof hint")
            elif name == "rule":
                args = arg.split()
                r = args[0]
                if r == "R1":
                    rule_R1(ed, src, parts)
                elif r == "R2":
                    # the construct may have been written as a `match` already (the form the rule
                    # produces): then there is nothing to rewrite
                    try:
                        rule_R2(ed, src, parts, args[1], int(args[2]) if len(args) > 2 else 1)
                    except ExtractError as e:
                        if "not found" not in str(e):
                            raise
                        self.report.setdefault("notes", []).append("%s: rule R2 %s: nothing to rewrite (%s)" % (label, " ".join(args[1:]), e))
                elif r == "R3":
                    rule_R3(ed, src, parts, " ".join(args[1:]))
                elif r == "R3?":
                    # same, for a `use` line that may or may not be there
                    try:
                        rule_R3(ed, src, parts, " ".join(args[1:]))
                    except ExtractError:
                        pass
                elif r == "R4":
                    inv = "\n".join("\n".join(t) for (n2, _a2, t) in blk.subs if n2 == "r4inv")
                    body = "\n".join("\n".join(t) for (n2, _a2, t) in blk.subs if n2 == "r4body")
                    after = "\n".join("\n".join(t) for (n2, _a2, t) in blk.subs if n2 == "r4after")
                    rule_R4(ed, src, parts, inv, body, after)
                elif r == "R5":
                    rule_R5(ed, src, parts, int(args[1]) if len(args) > 1 else 1)
                elif r == "R14":
                    rule_R14(ed, src, parts, args[1], "\n".join("\n".join(t) for (n2, _a2, t) in blk.subs if n2 == "r14after"), "\n".join("\n".join(t) for (n2, _a2, t) in blk.subs if n2 == "r14before"))
                elif r == "R11":
                    fors_ = [(k, j) for (k, j) in loops_in(src, parts["body"][0] + 1, parts["body"][1]) if toks[k].text == "for"]
                    rule_R11(ed, src, parts, loop_index(blk, src, fors_, int(args[1]), label) + 1, args[2] if len(args) > 2 else "verif_it%s" % args[1], args[3] if len(args) > 3 and args[3] != "-" else None, plain=(len(args) > 4 and args[4] == "plain"))
                elif r == "R9":
                    if len(args) > 1 and args[1] == "all":
                        # every `.map(..)` of the body (they are all Meta::map in the function the
                        # rule is declared for; anything else fails to type-check afterwards)
                        n = 1
                        while True:
                            try:
                                rule_R9(ed, src, parts, n)
                            except ExtractError:
                                break
                            n += 1
                        if n == 1:
                            self.report.setdefault("notes", []).append("%s: rule R9 all: nothing to rewrite" % label)
                    else:
                        rule_R9(ed, src, parts, int(args[1]) if len(args) > 1 else 1)
                else:
                    raise ExtractError("%s: unknown rule %s" % (label, r))
            elif name == "closure":
                m = re.match(r"(\d+)(?:\s+`(.*)`)?\s*$", arg)
                if not m:
                    raise ExtractError("%s: bad //@closure argument" % label)
                rule_R7(ed, src, parts, int(m.group(1)), m.group(2), text)
            elif name == "wrap":
                # R15: the K-th occurrence of an expression (a token sequence) is wrapped in a block that
                # binds its value to a local and yields it -- `{ let mut NAME = EXPR; <proof text> NAME }`
                # -- so that a proof hint can name the value (an iterator adapter's `remaining()`)
                m = re.match(r"(\d+)\s+`(.*)`\s+(\w+)\s*$", arg)
                if not m:
                    raise ExtractError("%s: bad //@wrap argument `%s`" % (label, arg))
                kth, pat, nm = int(m.group(1)), m.group(2), m.group(3)
                bo, bc = parts["body"]
                occ = find_token_seq(src, bo + 1, bc, pat)
                if kth > len(occ):
                    raise ExtractError("lost anchor: expression `%s` #%d not found in %s" % (pat, kth, label))
                k0, k1 = occ[kth - 1]
                ed.insert(toks[k0].start, "{ let mut %s = " % nm, "R15", "expression bound to a local inside a block that yields it")
                ed.insert(toks[k1].end, ";\n" + text + "\n" + nm + " }", "R15", "expression bound to a local inside a block that yields it")
            elif name in ("subst", "nospinoff", "r4inv", "r4body", "r4after", "r14after", "r14before", "loopkey", "optional", "modelled"):
                pass
            elif name == "pubfields":
                rule_R8(ed, src, a, b)
            else:
                raise ExtractError("%s: unknown sub-directive //@%s" % (label, name))
        if want_body_canary:
            ed.insert(toks[parts["body"][0]].end, "\nproof { assert(false); } // vacuity canary\n", "A", "canary")
        # every function under contract is verified in its own solver instance: the verdict
        # for one function then cannot depend on which other functions were checked before it
        if is_fn and parts and parts["body"] and any(n == "spec" for (n, _a, _t) in blk.subs) \
                and not any(n == "attr" and "spinoff_prover" in a for (n, a, _t) in blk.subs) \
                and not any(n == "nospinoff" for (n, _a, _t) in blk.subs):
            ed.insert(head_ins, "#[verifier::spinoff_prover]\n", "A", "attribute")
        # substitutions (R6 path re-rooting) -- token-sequence replacement
        substs = list(default_subst)
        modelled = []
        for (name, arg, tlines) in blk.subs:
            if name == "subst":
                m = BQ.findall(arg)
                if len(m) != 2:
                    raise ExtractError("%s: bad //@subst `%s`" % (label, arg))
                substs.append((m[0], m[1]))
            elif name == "modelled":
                m = BQ.findall(arg)
                if len(m) != 2:
                    raise ExtractError("%s: bad //@modelled `%s`" % (label, arg))
                modelled.append((m[0], m[1]))
        text, log = ed.render()
        # R12: an expression outside the verifier's reach (iterator adapter with a closure) is
        # replaced by a call to an assumed stub that states what it yields; the anchor must be there
        for (old, new) in modelled:
            t2 = _subst_text(text, old, new)
            if t2 == text:
                raise ExtractError("lost anchor: modelled expression `%s` not found in %s" % (old, label))
            log.append({"rule": "R12", "line": src.line_of(ed.lo), "before": old, "after": new, "note": "expression replaced by an ASSUMED stub (its contract is part of the trusted base)"})
            text = t2
        # R6 path re-rooting: token-sequence replacement over the rendered item
        for (old, new) in substs:
            t2 = _subst_text(text, old, new)
            if t2 != text:
                log.append({"rule": "R6", "line": src.line_of(ed.lo), "before": old, "after": new, "note": "path re-rooted (every occurrence in the item)"})
            text = t2
        item_src = src.text[ed.lo:ed.hi]
        self.report["items"].append({
            "label": label,
            "file": src.rel,
            "lines": [src.line_of(ed.lo), src.line_of(ed.hi)],
            "sha256": hashlib.sha256(item_src.encode()).hexdigest()[:16],
            "source_tokens": len(sig_indices(toks, a, b)),
            "edits": log,
            "contract_clauses": n_ann,
            "props": props if props is not None else self.default_props,
            "is_fn": is_fn,
            "has_body": bool(parts and parts["body"]),
            "has_contract": any(n == "spec" for (n, _a, _t) in blk.subs),
            # loops of the body vs loops that carry a loop contract: a loop without an invariant
            # makes its function unprovable whatever it computes ("needs contract", not "bug")
            "loops_total": len(loops_in(src, parts["body"][0] + 1, parts["body"][1])) if (parts and parts["body"]) else 0,
            "loops_annotated": len({arg.strip() for (n, arg, _t) in blk.subs if n == "loop"}),
        })
        if is_fn and n_ann:
            self.fn_names.append(label)
        return text

    # -- whole template ---------------------------------------------------
    def build(self):
        with open(self.template_path, encoding="utf-8") as f:
            tpl = parse_template(expand_includes(f.read(), os.path.dirname(os.path.abspath(self.template_path))))
        out = LineTrackingList(self.report["items"])
        for node in tpl:
            if node[0] == "unitprops":
                self.default_props = node[1]
                out.append("// (unit default properties: %s)" % " ".join(node[1]))
            elif node[0] == "raw":
                out.append(node[1])
            elif node[0] == "item":
                blk = node[1]
                rel, path = split_arg(blk.arg)
                src = self.source(rel)
                try:
                    a, b = locate(src, path)
                except ExtractError:
                    if any(n == "optional" for (n, _a, _t) in blk.subs):
                        # an item the code may or may not have (e.g. a nested helper that a
                        # refactoring inlined): nothing to emit
                        self.report.setdefault("notes", []).append("optional item `%s :: %s` is not in the source" % (rel, path))
                        continue
                    raise
                out.append_item(self.emit_item(src, a, b, blk, "%s :: %s" % (rel, path)))
            elif node[0] == "impl":
                blk, children = node[1], node[2]
                rel, path = split_arg(blk.arg)
                src = self.source(rel)
                a, b = locate(src, path, tuple(ch[1].arg for ch in children if ch[0] in ("fn", "item")))
                bb = body_braces(src, a, b)
                if bb is None:
                    raise ExtractError("container `%s` has no body" % path)
                toks = src.toks
                hs = header_start(toks, a, b)
                header = src.text[toks[hs].start:toks[bb[0]].end]
                substs = []
                for (name, arg, _t) in blk.subs:
                    if name == "subst":
                        m = BQ.findall(arg)
                        substs.append((m[0], m[1]))
                        header = _subst_text(header, m[0], m[1])
                    elif name == "headerattr":
                        out.append(arg)
                self.report["items"].append({"label": "%s :: %s (container header)" % (rel, path), "file": rel, "lines": [src.line_of(toks[hs].start), src.line_of(toks[bb[0]].start)], "edits": [{"rule": "R6", "note": "attributes/doc comments in front of the container dropped"}] if hs > a else []})
                out.append(header)
                for ch in children:
                    if ch[0] == "raw":
                        out.append(ch[1])
                    elif ch[0] == "fn":
                        fblk = ch[1]
                        fa, fb = find_in(src, bb[0] + 1, bb[1], fblk.arg)
                        out.append_item(self.emit_item(src, fa, fb, fblk, "%s :: %s / %s" % (rel, path, fblk.arg), substs))
                    elif ch[0] == "item":
                        iblk = ch[1]
                        fa, fb = find_in(src, bb[0] + 1, bb[1], iblk.arg)
                        out.append_item(self.emit_item(src, fa, fb, iblk, "%s :: %s / %s" % (rel, path, iblk.arg), substs))
                out.append("}")
        return "\n".join(out) + "\n"


class LineTrackingList(list):
    """output pieces joined by newlines; records the output line range of each
    extracted item in the report entry that emit_item just appended"""

    def __init__(self, items):
        super().__init__()
        self.items = items
        self.line = 1

    def append(self, text):
        super().append(text)
        self.line += text.count("\n") + 1

    def append_item(self, text):
        start = self.line
        self.append(text)
        self.items[-1]["out_lines"] = [start, self.line - 1]


def _subst_text(text, old, new):
    want = [t.text for t in significant(tokenize(old))]
    toks = tokenize(text)
    ks = [k for k in range(len(toks)) if toks[k].kind not in ("ws", "comment")]
    out = []
    pos = 0
    x = 0
    while x + len(want) <= len(ks):
        if [toks[ks[x + y]].text for y in range(len(want))] == want:
            out.append(text[pos:toks[ks[x]].start])
            out.append(new)
            pos = toks[ks[x + len(want) - 1]].end
            x += len(want)
        else:
            x += 1
    out.append(text[pos:])
    return "".join(out)


def main():
    import argparse
    ap = argparse.ArgumentParser()
    ap.add_argument("--repo", default="/repo")
    ap.add_argument("--template", required=True)
    ap.add_argument("--out", required=True)
    ap.add_argument("--report", required=True)
    ap.add_argument("--canary", action="store_true")
    a = ap.parse_args()
    u = Unit(a.repo, a.template, canary=a.canary)
    try:
        text = u.build()
    except (ExtractError, LexError) as e:
        print("EXTRACT-ERROR: %s" % e, file=sys.stderr)
        sys.exit(2)
    with open(a.out, "w", encoding="utf-8") as f:
        f.write(text)
    u.report["functions_under_contract"] = u.fn_names
    with open(a.report, "w", encoding="utf-8") as f:
        json.dump(u.report, f, indent=1)


if __name__ == "__main__":
    main()
