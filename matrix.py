#!/usr/bin/env python3
"""Detection matrix: every seeded change x every claimed check, on scratch copies of /repo.
usage: matrix.py [--workers N] [--props C01,C02,...] [--seeds id,id,...]
Writes seeded/MATRIX.json and updates seeded/<id>/meta.json (detected_by / also_flagged)."""
import json, os, subprocess, sys, shutil, tempfile, concurrent.futures, argparse
HERE = os.path.dirname(os.path.abspath(__file__))
sys.path.insert(0, os.path.join(HERE, "driver"))
import config as CFG

ap = argparse.ArgumentParser()
ap.add_argument("--workers", type=int, default=3)
ap.add_argument("--props", default="")
ap.add_argument("--seeds", default="")
ap.add_argument("--repo", default=os.environ.get("VP_RUN_REPO", "/repo"))
ap.add_argument("--diagonal", action="store_true", help="run, for each seed, only the check of its own property")
ap.add_argument("--family", action="store_true", help="run, for each seed, only the checks of the properties that share a unit / stand-in with the seed's property")
a = ap.parse_args()
props = [p for p in (a.props.split(",") if a.props else sorted(CFG.PROPS))]
seeds = sorted(d for d in os.listdir(os.path.join(HERE, "seeded")) if os.path.isdir(os.path.join(HERE, "seeded", d)) and os.path.exists(os.path.join(HERE, "seeded", d, "patch.diff")))
FAMILIES = [["C01", "C02", "C03", "C05", "C07", "C12"], ["C04", "C08", "C13", "C09"], ["C06", "C02", "C10", "C14", "C15", "C09"], ["C11", "C20", "C05"]]
def family_of(seed):
    p = seed.split("-")[0]
    out = {p}
    for f in FAMILIES:
        if p in f:
            out |= set(f)
    return sorted(out & set(CFG.PROPS))
if a.seeds:
    seeds = [s for s in seeds if s in a.seeds.split(",")]

def work(seed):
    scratch = tempfile.mkdtemp(prefix="matrix-")
    repo = os.path.join(scratch, "repo")
    subprocess.run(["git", "clone", "-q", a.repo, repo], check=True)
    r = subprocess.run(["git", "-C", repo, "apply", os.path.join(HERE, "seeded", seed, "patch.diff")], capture_output=True, text=True)
    out = {}
    if r.returncode != 0:
        shutil.rmtree(scratch, ignore_errors=True)
        return seed, {"error": "patch does not apply: " + r.stderr[:200]}
    env = dict(os.environ, VERIF_REPO=repo, VERIF_TARGET_DIR=os.path.join(scratch, "target"))
    for p in ([seed.split('-')[0]] if a.diagonal else family_of(seed) if a.family else props):
        pr = subprocess.run([os.path.join(HERE, "check"), p], capture_output=True, text=True, env=env)
        verdict = "ok" if pr.returncode == 0 else ("violation" if (pr.returncode == 1 and "VIOLATION property=" in pr.stdout) else "no-verdict")
        cex = "no-failing-input-found" not in pr.stdout if verdict == "violation" else None
        # what the deductive part alone said: a named obligation of a function under contract failed /
        # it gave no verdict (lost anchor, unsupported construct, ...) / it accepted the changed code
        lines = (pr.stdout + "\n" + pr.stderr).splitlines()
        ded = [l for l in lines if l.startswith("FAILED OBLIGATION: ") and not l.startswith("FAILED OBLIGATION: bounded check")]
        if ded:
            deductive = "failed-obligation"
        elif any("the deductive part gave no verdict" in l or l.startswith("NO-VERDICT") for l in lines):
            deductive = "no-verdict"
        else:
            deductive = "silent"
        out[p] = {"verdict": verdict, "with_failing_input": cex, "deductive": deductive, "deductive_obligations": sorted({l[len("FAILED OBLIGATION: "):][:160] for l in ded})[:4]}
    shutil.rmtree(scratch, ignore_errors=True)
    return seed, out

res = {}
with concurrent.futures.ThreadPoolExecutor(max_workers=a.workers) as ex:
    for seed, out in ex.map(work, seeds):
        res[seed] = out
        print(seed, {p: v["verdict"] for p, v in out.items() if isinstance(v, dict) and v.get("verdict") != "ok"} if "error" not in out else out, flush=True)
json.dump({"note": "verdict of every check run against every seeded change (family mode: only the checks sharing a unit or stand-in with the seed's property); produced by matrix.py on scratch clones", "results": res}, open(os.path.join(HERE, "seeded", "DIAGONAL.json" if a.diagonal else "MATRIX.json"), "w"), indent=1)
for seed, out in res.items():
    mp = os.path.join(HERE, "seeded", seed, "meta.json")
    if not os.path.exists(mp) or "error" in out:
        continue
    m = json.load(open(mp))
    target = m["breaks_property"]
    m["detected_by"] = [p for p, v in out.items() if v["verdict"] == "violation" and p == target]
    m["also_flagged_by"] = [p for p, v in out.items() if v["verdict"] == "violation" and p != target]
    m["no_verdict"] = [p for p, v in out.items() if v["verdict"] == "no-verdict"]
    m["failing_input_found"] = bool(out.get(target, {}).get("with_failing_input"))
    m["deductive_part"] = out.get(target, {}).get("deductive")
    json.dump(m, open(mp, "w"), indent=1)
